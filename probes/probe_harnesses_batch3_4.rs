#![allow(unused)]
extern crate alloc;
#[cfg(kani)]
mod h {
    use bemodel::energy::verif_hooks::*;
    use bemodel::energy::*;
    use bemodel::*;

    fn uid(n: u128) -> Uuid { Uuid::from_u128(n) }
    fn anyf(lo: f32, hi: f32) -> f32 { let x: f32 = kani::any(); kani::assume(x >= lo && x <= hi); x }
    fn g(max: u8) -> f32 { let k: u8 = kani::any(); kani::assume(k <= max); k as f32 }
    fn fmt_stub(_a: std::fmt::Arguments<'_>) -> String { String::new() }
    fn bt_stub() -> std::backtrace::Backtrace { std::backtrace::Backtrace::disabled() }
    fn fsh_stub(_m: &Model) -> bemodel::kani_models::BTreeMap<Uuid, f32> { bemodel::kani_models::BTreeMap::new() }
    fn any_tilt_deg() -> f32 { let k: u8 = kani::any(); kani::assume(k < 3); match k { 0 => 0.0, 1 => 90.0, _ => 180.0 } }

    // ---- P10 trig on constants
    #[kani::proof]
    fn t_sin_const() {
        let s = (0.0f32).sin();
        let c = (0.0f32).cos();
        assert!(s == 0.0);
        assert!(c == 1.0);
    }
    #[kani::proof]
    fn t_sin_const90() {
        let c = (90.0f32).to_radians().cos();
        assert!(c.abs() < 1e-6);
    }
    #[kani::proof]
    fn t_ln_det() {
        let x = anyf(0.5, 100.0);
        let a = x.ln(); let b = x.ln();
        assert!(a == b);
    }
    #[kani::proof]
    fn t_ln_val() {
        let a = (1.0f32).ln();
        assert!(a == 0.0);
    }
    #[kani::proof]
    fn t_sqrt() {
        let x = g(15);
        let r = (x * x).sqrt();
        assert!(r == x);
    }

    // ---- P1 U exterior: modelo con Vec
    fn u_ext_case(tilt: f32, rsi: f32) {
        let mut m = Model::default();
        let e1 = anyf(0.0, 1.0); let e2 = anyf(0.0, 1.0);
        let lam = 0.5f32; let rr = anyf(0.0, 5.0);
        m.cons.materials.push(Material { id: uid(1), name: String::new(), properties: MatProps::Detailed { conductivity: lam, density: 1.0, specific_heat: 1.0, vapour_diff: None } });
        m.cons.materials.push(Material { id: uid(2), name: String::new(), properties: MatProps::Resistance { resistance: rr, vapour_diff: None } });
        m.cons.wallcons.push(WallCons { id: uid(3), name: String::new(), layers: vec![Layer { material: uid(1), e: e1 }, Layer { material: uid(2), e: e2 }], absorptance: 0.6 });
        let adiab: bool = kani::any();
        let w = Wall { id: uid(5), name: String::new(), bounds: if adiab { BoundaryType::ADIABATIC } else { BoundaryType::EXTERIOR }, cons: uid(3), space: uid(9), next_to: None,
            geometry: WallGeom { tilt, azimuth: 0.0, position: None, polygon: vec![] } };
        let u = w.u_value(&m);
        let r = (0.0 + e1 / lam) + rr;
        let expect = ((1.0 / (r + rsi + 0.04)) * 100.0).round() / 100.0;
        assert!(u == Some(expect));
        std::mem::forget(m); std::mem::forget(w);
    }
    #[kani::proof]
    #[kani::unwind(4)]
    #[kani::stub(alloc::fmt::format, fmt_stub)]
    #[kani::stub(std::backtrace::Backtrace::capture, bt_stub)]
    fn u_exterior() {
        let k: u8 = kani::any(); kani::assume(k < 3);
        match k { 0 => u_ext_case(0.0, 0.10), 1 => u_ext_case(90.0, 0.13), _ => u_ext_case(180.0, 0.17) }
    }

    // ---- P6 point in poly (via Ray::intersects_with_data con identidad)
    #[kani::proof]
    #[kani::unwind(11)]
    fn pip_grid_triangle() {
        use nalgebra::IsometryMatrix3;
        let gi = || -> i32 { let k: i8 = kani::any(); kani::assume(k >= -4 && k <= 4); k as i32 };
        let (ax, ay, bx, by, cx, cy) = (gi(), gi(), gi(), gi(), gi(), gi());
        // triangulo no degenerado, antihorario
        let area2 = (bx - ax) * (cy - ay) - (by - ay) * (cx - ax);
        kani::assume(area2 > 0);
        let (px2, py2) = (gi() * 2 + 1, gi() * 2 + 1); // punto en semienteros (no cae en vertices ni en lineas de rejilla)
        let poly = vec![point![ax as f32, ay as f32], point![bx as f32, by as f32], point![cx as f32, cy as f32]];
        let ray = Ray { origin: point![px2 as f32 * 0.5, py2 as f32 * 0.5, 1.0], dir: vector![0.0, 0.0, -1.0] };
        let id = IsometryMatrix3::<f32>::identity();
        let hit = ray.intersects_with_data(&poly, Some(&id), &vector![0.0, 0.0, 1.0]).is_some();
        // referencia exacta en enteros (coordenadas x2): punto estrictamente interior <=> los tres productos cruzados > 0
        let cr = |x1: i32, y1: i32, x2: i32, y2: i32| -> i32 { (2 * x2 - 2 * x1) * (py2 - 2 * y1) - (2 * y2 - 2 * y1) * (px2 - 2 * x1) };
        let d1 = cr(ax, ay, bx, by); let d2 = cr(bx, by, cx, cy); let d3 = cr(cx, cy, ax, ay);
        kani::assume(d1 != 0 && d2 != 0 && d3 != 0);
        let inside = d1 > 0 && d2 > 0 && d3 > 0;
        assert!(hit == inside);
        std::mem::forget(poly);
    }

    // ---- P3 schedules (pequeño)
    #[kani::proof]
    #[kani::unwind(8)]
    fn sched_small() {
        let d1 = uid(1); let d2 = uid(2);
        let c1: u32 = kani::any(); kani::assume(c1 <= 3);
        let wk = ScheduleWeek { id: uid(10), name: String::new(), values: vec![(d1, c1), (d2, 3 - c1)] }; // "semana" de 3 dias
        let n1: u32 = kani::any(); let n2: u32 = kani::any();
        kani::assume(n1 <= 3 && n2 <= 3);
        let yr = Schedule { id: uid(20), name: String::new(), values: vec![(uid(10), n1), (uid(10), n2)] };
        let db = SchedulesDb { year: vec![yr], week: vec![wk], day: vec![] };
        let days = db.get_year_as_day_sch(uid(20));
        assert!(days.len() as u32 == n1 + n2);
        std::mem::forget(db); std::mem::forget(days);
    }

    // ---- P8 azimuth convention (rejilla 0.25 grados)
    #[kani::proof]
    fn az_convention() {
        let k: u16 = kani::any(); kani::assume(k < 1440);
        let a = k as f32 * 0.25;
        let o = bemodel::convert::verif_hooks::orientation_bdl_to_52016(a);
        if k == 0 { assert!(o == -180.0 || o == 180.0); } else { assert!(o == 180.0 - a); }
    }

    fn space(id: u128, inside: bool, kind: SpaceType, mult: f32, h: f32) -> Space {
        Space { id: uid(id), name: String::new(), multiplier: mult, kind, inside_tenv: inside, height: h, z: 0.0, loads: None, thermostat: None, n_v: None, illuminance: None }
    }
    fn any_kind() -> SpaceType { let k: u8 = kani::any(); kani::assume(k < 3); match k { 0 => SpaceType::CONDITIONED, 1 => SpaceType::UNCONDITIONED, _ => SpaceType::UNINHABITED } }
    fn any_bounds() -> BoundaryType { let k: u8 = kani::any(); kani::assume(k < 4); match k { 0 => BoundaryType::EXTERIOR, 1 => BoundaryType::INTERIOR, 2 => BoundaryType::GROUND, _ => BoundaryType::ADIABATIC } }

    // ---- P7 EnergyProps::from con compute_fshobst stub
    #[kani::proof]
    #[kani::unwind(6)]
    #[kani::stub(alloc::fmt::format, fmt_stub)]
    #[kani::stub(std::backtrace::Backtrace::capture, bt_stub)]
    #[kani::stub(bemodel::Model::compute_fshobst, fsh_stub)]
    fn props_small() {
        let mut m = Model::default();
        let in1: bool = kani::any(); let in2: bool = kani::any();
        let k1 = any_kind();
        let mult = if kani::any() { 1.0 } else { 2.0 };
        let h = 2.0 + g(2);
        m.spaces.push(space(1, in1, k1, mult, h));
        m.spaces.push(space(2, in2, SpaceType::CONDITIONED, 1.0, 3.0));
        let side = 1.0 + g(3);
        // suelo del espacio 1 (tilt 180) cuadrado side x side
        let b = any_bounds();
        let nxt: u8 = kani::any(); kani::assume(nxt < 3);
        m.walls.push(Wall { id: uid(10), name: String::new(), bounds: b, cons: uid(99), space: uid(1),
            next_to: match nxt { 0 => None, 1 => Some(uid(2)), _ => Some(uid(77)) },
            geometry: WallGeom { tilt: 180.0, azimuth: 0.0, position: None, polygon: vec![point![0.0, 0.0], point![side, 0.0], point![side, side], point![0.0, side]] } });
        let p = EnergyProps::from(&m);
        let area = side * side;
        let a_ref = if in1 && k1 != SpaceType::UNINHABITED { area * mult } else { 0.0 };
        assert!(p.global.a_ref == a_ref);
        let vg = if in1 { area * h * mult } else { 0.0 };
        assert!(p.global.vol_env_gross == vg);
        let next_inside = nxt == 1 && in2;
        let tenv = match b { BoundaryType::INTERIOR => in1 != next_inside, _ => in1 };
        assert!(p.walls.get(&uid(10)).unwrap().is_tenv == tenv);
        std::mem::forget(m); std::mem::forget(p);
    }

    // ---- P2 purge
    #[kani::proof]
    #[kani::unwind(6)]
    #[kani::stub(alloc::fmt::format, fmt_stub)]
    fn purge_small() {
        let mut m = Model::default();
        m.spaces.push(space(1, true, SpaceType::CONDITIONED, 1.0, 3.0));
        m.spaces.push(space(2, true, SpaceType::CONDITIONED, 1.0, 3.0));
        m.spaces.push(space(3, true, SpaceType::CONDITIONED, 1.0, 3.0));
        let s: u8 = kani::any(); kani::assume(s >= 1 && s <= 4);
        let n: u8 = kani::any(); kani::assume(n <= 4);
        m.walls.push(Wall { id: uid(10), name: String::new(), bounds: BoundaryType::INTERIOR, cons: uid(99), space: uid(s as u128),
            next_to: if n == 0 { None } else { Some(uid(n as u128)) }, geometry: WallGeom::default() });
        let l = g(2) - 1.0;
        m.thermal_bridges.push(ThermalBridge { id: uid(20), name: String::new(), kind: ThermalBridgeKind::ROOF, l, psi: 0.5 });
        let _w = purge_unused(&mut m);
        let used = |i: u8| s == i || n == i;
        let exp = (used(1) as usize) + (used(2) as usize) + (used(3) as usize);
        assert!(m.spaces.len() == exp);
        assert!(m.thermal_bridges.len() == if l != 0.0 { 1 } else { 0 });
        if used(1) { assert!(m.spaces[0].id == uid(1)); }
        std::mem::forget(m); std::mem::forget(_w);
    }

    // ---- P4 serde Value roundtrip
    #[kani::proof]
    #[kani::unwind(20)]
    fn serde_tb() {
        let l = g(3);
        let tb = ThermalBridge { id: uid(3), name: String::new(), kind: ThermalBridgeKind::GENERIC, l, psi: 0.5 };
        let v = serde_json::to_value(&tb).unwrap();
        let back: ThermalBridge = serde_json::from_value(v).unwrap();
        assert!(back.l == l && back.psi == 0.5 && back.kind == ThermalBridgeKind::GENERIC);
    }

    // ---- P5 string kernels
    #[kani::proof]
    #[kani::unwind(8)]
    #[kani::stub(alloc::fmt::format, fmt_stub)]
    #[kani::stub(std::backtrace::Backtrace::capture, bt_stub)]
    fn str_edge_vertices() {
        use nalgebra::point;
        let d: u8 = kani::any();
        kani::assume(d >= b'0' && d <= b'9');
        let bytes = [b'V', d];
        let name = std::str::from_utf8(&bytes).unwrap();
        let n: usize = kani::any(); kani::assume(n <= 4);
        let mut v = Vec::new();
        let mut i = 0; while i < n { v.push(point![i as f32, 0.0]); i += 1; }
        let poly = hulc::bdl::Polygon(v);
        let r = poly.edge_vertices(name);
        std::mem::forget(poly);
    }
    #[kani::proof]
    #[kani::unwind(8)]
    #[kani::stub(alloc::fmt::format, fmt_stub)]
    #[kani::stub(std::backtrace::Backtrace::capture, bt_stub)]
    fn str_u32vec() {
        let b: [u8; 5] = kani::any();
        let mut i = 0; while i < 5 { kani::assume(b[i] < 128); i += 1; }
        let s = std::str::from_utf8(&b).unwrap();
        let r = hulc::bdl::extract_u32vec(s);
        if let Ok(v) = &r { assert!(v.len() >= 1 && v.len() <= 3); }
        std::mem::forget(r);
    }
}
