//! Modelos simples (respaldados por Vec) de BTreeMap / HashMap / HashSet para verificación con Kani.
//! Contrato: mismas operaciones observables que std (claves únicas; BTreeMap itera en orden ascendente de clave;
//! HashMap/HashSet iteran en un orden arbitrario pero fijo: el de inserción).
#![allow(dead_code)]

use std::borrow::Borrow;

#[derive(Debug, Clone)]
pub struct BTreeMap<K, V> {
    items: Vec<(K, V)>,
}

impl<K, V> Default for BTreeMap<K, V> {
    fn default() -> Self {
        Self { items: Vec::new() }
    }
}

impl<K: Ord, V> BTreeMap<K, V> {
    pub fn new() -> Self {
        Self { items: Vec::new() }
    }
    fn pos<Q: Ord + ?Sized>(&self, k: &Q) -> Result<usize, usize>
    where
        K: Borrow<Q>,
    {
        let mut i = 0;
        while i < self.items.len() {
            match self.items[i].0.borrow().cmp(k) {
                std::cmp::Ordering::Less => i += 1,
                std::cmp::Ordering::Equal => return Ok(i),
                std::cmp::Ordering::Greater => return Err(i),
            }
        }
        Err(i)
    }
    pub fn insert(&mut self, k: K, v: V) -> Option<V> {
        match self.pos(&k) {
            Ok(i) => Some(std::mem::replace(&mut self.items[i].1, v)),
            Err(i) => {
                self.items.insert(i, (k, v));
                None
            }
        }
    }
    pub fn get<Q: Ord + ?Sized>(&self, k: &Q) -> Option<&V>
    where
        K: Borrow<Q>,
    {
        self.pos(k).ok().map(|i| &self.items[i].1)
    }
    pub fn get_mut<Q: Ord + ?Sized>(&mut self, k: &Q) -> Option<&mut V>
    where
        K: Borrow<Q>,
    {
        match self.pos(k) {
            Ok(i) => Some(&mut self.items[i].1),
            Err(_) => None,
        }
    }
    pub fn contains_key<Q: Ord + ?Sized>(&self, k: &Q) -> bool
    where
        K: Borrow<Q>,
    {
        self.pos(k).is_ok()
    }
    pub fn remove<Q: Ord + ?Sized>(&mut self, k: &Q) -> Option<V>
    where
        K: Borrow<Q>,
    {
        match self.pos(k) {
            Ok(i) => Some(self.items.remove(i).1),
            Err(_) => None,
        }
    }
    pub fn entry(&mut self, k: K) -> Entry<'_, K, V> {
        Entry { map: self, key: k }
    }
}

impl<K, V> BTreeMap<K, V> {
    pub fn len(&self) -> usize {
        self.items.len()
    }
    pub fn is_empty(&self) -> bool {
        self.items.is_empty()
    }
    pub fn iter(&self) -> impl Iterator<Item = (&K, &V)> + Clone {
        self.items.iter().map(|(k, v)| (k, v))
    }
    pub fn iter_mut(&mut self) -> impl Iterator<Item = (&K, &mut V)> {
        self.items.iter_mut().map(|(k, v)| (&*k, v))
    }
    pub fn values(&self) -> impl Iterator<Item = &V> + Clone {
        self.items.iter().map(|(_, v)| v)
    }
    pub fn keys(&self) -> impl Iterator<Item = &K> + Clone {
        self.items.iter().map(|(k, _)| k)
    }
}

pub struct Entry<'a, K, V> {
    map: &'a mut BTreeMap<K, V>,
    key: K,
}

impl<'a, K: Ord, V> Entry<'a, K, V> {
    pub fn or_insert_with<F: FnOnce() -> V>(self, f: F) -> &'a mut V {
        let i = match self.map.pos(&self.key) {
            Ok(i) => i,
            Err(i) => {
                self.map.items.insert(i, (self.key, f()));
                i
            }
        };
        &mut self.map.items[i].1
    }
    pub fn or_insert(self, v: V) -> &'a mut V {
        self.or_insert_with(|| v)
    }
    pub fn or_default(self) -> &'a mut V
    where
        V: Default,
    {
        self.or_insert_with(V::default)
    }
}

impl<K: Ord, Q: Ord + ?Sized, V> std::ops::Index<&Q> for BTreeMap<K, V>
where
    K: Borrow<Q>,
{
    type Output = V;
    fn index(&self, k: &Q) -> &V {
        self.get(k).expect("no entry found for key")
    }
}

impl<K: Ord, V> FromIterator<(K, V)> for BTreeMap<K, V> {
    fn from_iter<I: IntoIterator<Item = (K, V)>>(it: I) -> Self {
        let mut m = Self::new();
        for (k, v) in it {
            m.insert(k, v);
        }
        m
    }
}

impl<K: serde::Serialize, V: serde::Serialize> serde::Serialize for BTreeMap<K, V> {
    fn serialize<S: serde::Serializer>(&self, s: S) -> Result<S::Ok, S::Error> {
        s.collect_map(self.items.iter().map(|(k, v)| (k, v)))
    }
}

impl<'de, K: Ord + serde::Deserialize<'de>, V: serde::Deserialize<'de>> serde::Deserialize<'de>
    for BTreeMap<K, V>
{
    fn deserialize<D: serde::Deserializer<'de>>(d: D) -> Result<Self, D::Error> {
        let m = std::collections::BTreeMap::<K, V>::deserialize(d)?;
        Ok(m.into_iter().collect())
    }
}

// ---------------- HashMap: igual que BTreeMap pero en orden de inserción
#[derive(Debug, Clone)]
pub struct HashMap<K, V> {
    items: Vec<(K, V)>,
}
impl<K, V> Default for HashMap<K, V> {
    fn default() -> Self {
        Self { items: Vec::new() }
    }
}
impl<K: Eq, V> HashMap<K, V> {
    pub fn new() -> Self {
        Self { items: Vec::new() }
    }
    fn pos(&self, k: &K) -> Option<usize> {
        let mut i = 0;
        while i < self.items.len() {
            if &self.items[i].0 == k {
                return Some(i);
            }
            i += 1;
        }
        None
    }
    pub fn insert(&mut self, k: K, v: V) -> Option<V> {
        match self.pos(&k) {
            Some(i) => Some(std::mem::replace(&mut self.items[i].1, v)),
            None => {
                self.items.push((k, v));
                None
            }
        }
    }
    pub fn get(&self, k: &K) -> Option<&V> {
        self.pos(k).map(|i| &self.items[i].1)
    }
    pub fn len(&self) -> usize {
        self.items.len()
    }
    pub fn is_empty(&self) -> bool {
        self.items.is_empty()
    }
    pub fn iter(&self) -> impl Iterator<Item = (&K, &V)> + Clone {
        self.items.iter().map(|(k, v)| (k, v))
    }
    pub fn iter_mut(&mut self) -> impl Iterator<Item = (&K, &mut V)> {
        self.items.iter_mut().map(|(k, v)| (&*k, v))
    }
    pub fn values(&self) -> impl Iterator<Item = &V> + Clone {
        self.items.iter().map(|(_, v)| v)
    }
    pub fn entry(&mut self, k: K) -> HEntry<'_, K, V> {
        HEntry { map: self, key: k }
    }
}
pub struct HEntry<'a, K, V> {
    map: &'a mut HashMap<K, V>,
    key: K,
}
impl<'a, K: Eq, V> HEntry<'a, K, V> {
    pub fn or_default(self) -> &'a mut V
    where
        V: Default,
    {
        let i = match self.map.pos(&self.key) {
            Some(i) => i,
            None => {
                self.map.items.push((self.key, V::default()));
                self.map.items.len() - 1
            }
        };
        &mut self.map.items[i].1
    }
}
impl<K: Eq, V> FromIterator<(K, V)> for HashMap<K, V> {
    fn from_iter<I: IntoIterator<Item = (K, V)>>(it: I) -> Self {
        let mut m = Self::new();
        for (k, v) in it {
            m.insert(k, v);
        }
        m
    }
}
impl<K: serde::Serialize, V: serde::Serialize> serde::Serialize for HashMap<K, V> {
    fn serialize<S: serde::Serializer>(&self, s: S) -> Result<S::Ok, S::Error> {
        s.collect_map(self.items.iter().map(|(k, v)| (k, v)))
    }
}
impl<'de, K: Eq + std::hash::Hash + serde::Deserialize<'de>, V: serde::Deserialize<'de>>
    serde::Deserialize<'de> for HashMap<K, V>
{
    fn deserialize<D: serde::Deserializer<'de>>(d: D) -> Result<Self, D::Error> {
        let m = std::collections::HashMap::<K, V>::deserialize(d)?;
        Ok(m.into_iter().collect())
    }
}

// ---------------- HashSet
#[derive(Debug, Clone)]
pub struct HashSet<T> {
    items: Vec<T>,
}
impl<T> Default for HashSet<T> {
    fn default() -> Self {
        Self { items: Vec::new() }
    }
}
impl<T: Eq> HashSet<T> {
    pub fn new() -> Self {
        Self { items: Vec::new() }
    }
    pub fn contains(&self, v: &T) -> bool {
        let mut i = 0;
        while i < self.items.len() {
            if &self.items[i] == v {
                return true;
            }
            i += 1;
        }
        false
    }
    pub fn insert(&mut self, v: T) -> bool {
        if self.contains(&v) {
            false
        } else {
            self.items.push(v);
            true
        }
    }
    pub fn len(&self) -> usize {
        self.items.len()
    }
}
impl<T: Eq> FromIterator<T> for HashSet<T> {
    fn from_iter<I: IntoIterator<Item = T>>(it: I) -> Self {
        let mut m = Self::new();
        for v in it {
            m.insert(v);
        }
        m
    }
}

// ---------------- Error: sustituto trivial de anyhow::Error (sin backtrace ni mensaje)
#[derive(Debug, Clone, Copy, PartialEq, Eq)]
pub struct Error;
#[macro_export]
macro_rules! format_err {
    ($($arg:tt)*) => {
        $crate::kani_models::Error
    };
}
