#![allow(unused)]
extern crate alloc;
#[cfg(kani)]
mod h {
    use bemodel::energy::verif_hooks::*;
    use bemodel::energy::*;
    use bemodel::kani_models::{BTreeMap, HashMap};
    use bemodel::*;

    fn uid(n: u128) -> Uuid { Uuid::from_u128(n) }
    fn g(max: u8) -> f32 { let k: u8 = kani::any(); kani::assume(k <= max); k as f32 }
    fn og(max: u8) -> Option<f32> { if kani::any() { Some(g(max)) } else { None } }
    fn fmt_stub(_a: std::fmt::Arguments<'_>) -> String { String::new() }
    fn round_stub(x: f32) -> f32 { let t = x.trunc(); let d = (x - t).abs(); if d >= 0.5 { t + x.signum() } else { t } }
    fn any_bounds() -> BoundaryType { let k: u8 = kani::any(); kani::assume(k < 4); match k { 0 => BoundaryType::EXTERIOR, 1 => BoundaryType::INTERIOR, 2 => BoundaryType::GROUND, _ => BoundaryType::ADIABATIC } }
    fn any_tilt() -> Tilt { let k: u8 = kani::any(); kani::assume(k < 3); match k { 0 => Tilt::TOP, 1 => Tilt::SIDE, _ => Tilt::BOTTOM } }
    fn props0() -> EnergyProps {
        EnergyProps { global: GlobalProps { a_ref: 0.0, vol_env_gross: 0.0, vol_env_net: 0.0, vol_env_inh_net: 0.0, compactness: 0.0, global_ventilation_rate: 0.0, n_50_test_ach: None, c_o_100: 16.0, occ_spaces_hours_in_use: 0, occ_spaces_average_load: 0.0 },
            spaces: BTreeMap::new(), walls: BTreeMap::new(), windows: BTreeMap::new(), thermal_bridges: BTreeMap::new(), shades: BTreeMap::new(), wallcons: BTreeMap::new(), wincons: BTreeMap::new(), sch_year: BTreeMap::new(), sch_week: BTreeMap::new(), sch_day: BTreeMap::new(), loads: BTreeMap::new() }
    }
    fn any_wall() -> WallProps {
        WallProps { space: uid(100), space_next: None, bounds: any_bounds(), cons: uid(200), orientation: Orientation::S, tilt: any_tilt(), area_gross: 0.0, area_net: g(3), multiplier: if kani::any() { 1.0 } else { 2.0 }, is_tenv: kani::any(), u_value: og(3), u_value_override: og(3) }
    }
    fn any_win(wall: Uuid) -> WinProps {
        WinProps { cons: uid(300), wall, orientation: Orientation::S, tilt: Tilt::SIDE, area: g(3), multiplier: 1.0, bounds: BoundaryType::EXTERIOR, is_tenv: true, u_value: og(3), u_value_override: og(3), f_shobst: None, f_shobst_override: None }
    }

    // ---- A: K con referencia por categorias, rejilla de 2 bits, U por defecto excluido
    #[kani::proof]
    #[kani::unwind(4)]
    #[kani::stub(alloc::fmt::format, fmt_stub)]
    fn k_two_walls() {
        let mut p = props0();
        let w1 = any_wall(); let w2 = any_wall();
        let win_on_1: bool = kani::any();
        let wi = any_win(if win_on_1 { uid(1) } else { uid(2) });
        let tbl = g(3) - 1.0; let tbpsi = g(3) - 1.0;
        let tb = TbProps { kind: ThermalBridgeKind::ROOF, l: tbl, psi: tbpsi };
        let inscope = |w: &WallProps| w.is_tenv && (w.bounds == BoundaryType::EXTERIOR || w.bounds == BoundaryType::GROUND);
        // entero exacto: escala x1 (todo son enteros pequenos)
        let mut a_i: i32 = 0; let mut au_i: i32 = 0; let mut dflt = false;
        for (i, w) in [(1u128, &w1), (2u128, &w2)] {
            if inscope(w) {
                let m = w.multiplier as i32;
                match w.u_value_override.or(w.u_value) { Some(u) => { a_i += m * w.area_net as i32; au_i += m * (w.area_net as i32) * (u as i32); } None => dflt = true }
                if (i == 1) == win_on_1 {
                    match wi.u_value_override.or(wi.u_value) { Some(u) => { a_i += m * wi.area as i32; au_i += m * (wi.area as i32) * (u as i32); } None => dflt = true }
                }
            }
        }
        if tbl >= 0.0 { au_i += (tbpsi as i32) * (tbl as i32); }
        p.walls.insert(uid(1), w1); p.walls.insert(uid(2), w2);
        p.windows.insert(uid(11), wi);
        p.thermal_bridges.insert(uid(21), tb);
        let k = KData::from(&p);
        kani::assume(!dflt);
        kani::cover!(a_i > 0 && au_i > 0);
        assert!(k.summary.a == a_i as f32);
        assert!(k.summary.au == au_i as f32);
        assert!(k.summary.a == k.summary.opaques_a + k.summary.windows_a);
        if k.summary.a >= 0.01 { assert!(k.K == k.summary.au / k.summary.a); } else { assert!(k.K == 0.0); }
        std::mem::forget(p);
    }

    // ---- B: despacho de Wall::u_value con numeros concretos
    fn sp(id: u128, kind: SpaceType) -> Space { Space { id: uid(id), name: String::new(), multiplier: 1.0, kind, inside_tenv: true, height: 3.0, z: 0.0, loads: None, thermostat: None, n_v: Some(1.0), illuminance: None } }
    #[kani::proof]
    #[kani::unwind(4)]
    #[kani::stub(alloc::fmt::format, fmt_stub)]
    #[kani::stub(f32::round, round_stub)]
    fn u_dispatch() {
        let mut m = Model::default();
        m.cons.materials.push(Material { id: uid(1), name: String::new(), properties: MatProps::Resistance { resistance: 1.0, vapour_diff: None } });
        m.cons.wallcons.push(WallCons { id: uid(3), name: String::new(), layers: vec![Layer { material: uid(1), e: 0.1 }], absorptance: 0.6 });
        let k1: bool = kani::any(); let k2: bool = kani::any();
        m.spaces.push(sp(1, if k1 { SpaceType::CONDITIONED } else { SpaceType::UNCONDITIONED }));
        m.spaces.push(sp(2, if k2 { SpaceType::CONDITIONED } else { SpaceType::UNCONDITIONED }));
        let t: u8 = kani::any(); kani::assume(t < 3);
        let tilt = match t { 0 => 0.0, 1 => 90.0, _ => 180.0 };
        let has_next: bool = kani::any();
        kani::assume(k1 == k2 || !has_next); // solo casos sin espacio no acondicionado adyacente
        let w = Wall { id: uid(5), name: String::new(), bounds: BoundaryType::INTERIOR, cons: uid(3), space: uid(1), next_to: if has_next { Some(uid(2)) } else { None },
            geometry: WallGeom { tilt, azimuth: 0.0, position: None, polygon: vec![] } };
        let u = w.u_value(&m);
        let rsi2: f32 = if !has_next { match t { 0 => 2.0 * 0.10, 1 => 2.0 * 0.13, _ => 2.0 * 0.17 } } else { 2.0 * 0.13 };
        let expect = round_stub((1.0 / (1.0 + rsi2)) * 100.0) / 100.0;
        assert!(u == Some(expect));
        std::mem::forget(m); std::mem::forget(w);
    }

    // ---- C: BVH con max=1 y 2 cajas en rejilla entera
    fn gi(lo: i8, hi: i8) -> f32 { let k: i8 = kani::any(); kani::assume(k >= lo && k <= hi); k as f32 }
    fn box_grid() -> AABB { let x = gi(-4, 4); let y = gi(-4, 4); let z = gi(-4, 4); AABB::new(point![x, y, z], point![x + gi(1, 2), y + gi(1, 2), z + gi(1, 2)]) }
    fn dirc() -> f32 { let k: u8 = kani::any(); kani::assume(k < 3); match k { 0 => -1.0, 1 => 0.0, _ => 1.0 } }
    #[kani::proof]
    #[kani::unwind(6)]
    fn bvh_split2() {
        let a = box_grid(); let b = box_grid();
        let d = vector![dirc(), dirc(), dirc()];
        kani::assume(d.x != 0.0 || d.y != 0.0 || d.z != 0.0);
        let ray = Ray { origin: point![gi(-6, 6), gi(-6, 6), gi(-6, 6)], dir: d };
        let lin = a.intersects(&ray).is_some() || b.intersects(&ray).is_some();
        let bvh = BVH::build(vec![a, b], 1);
        let acc = bvh.intersects(&ray).is_some();
        kani::cover!(lin);
        assert!(acc == lin);
    }
}
