//! C15 — the model checker reports exactly the broken links.
use crate::common::*;

/// link choice: 0,1 = existing ids of the target collection, 2 = nil, 3 = an id that exists nowhere
fn link<S: Src>(s: &mut S, a: Uuid, b: Uuid) -> (Uuid, bool) {
    match s.below(4) {
        0 => (a, true),
        1 => (b, true),
        2 => (Uuid::nil(), false),
        _ => (uid(0xdead), false),
    }
}

pub fn check_case<S: Src>(s: &mut S, nwalls: usize, nwins: usize, ntbs: usize) { check_case_x(s, nwalls, nwins, ntbs, true) }
pub fn check_case_x<S: Src>(s: &mut S, nwalls: usize, nwins: usize, ntbs: usize, inspect: bool) {
    let mut m = Model::default();
    m.spaces.push(Space { id: uid(1), name: String::new(), multiplier: 1.0, kind: SpaceType::CONDITIONED, inside_tenv: true, height: 3.0, z: 0.0, loads: None, thermostat: None, n_v: None, illuminance: None });
    m.spaces.push(Space { id: uid(2), name: String::new(), multiplier: 1.0, kind: SpaceType::CONDITIONED, inside_tenv: true, height: 3.0, z: 0.0, loads: None, thermostat: None, n_v: None, illuminance: None });
    m.cons.wallcons.push(WallCons { id: uid(11), name: String::new(), layers: Vec::new(), absorptance: 0.5 });
    m.cons.wallcons.push(WallCons { id: uid(12), name: String::new(), layers: Vec::new(), absorptance: 0.5 });
    m.cons.wincons.push(WinCons { id: uid(21), name: String::new(), glass: uid(0), frame: uid(0), f_f: 0.25, delta_u: 0.0, g_glshwi: None, c_100: 27.0 });
    m.cons.wincons.push(WinCons { id: uid(22), name: String::new(), glass: uid(0), frame: uid(0), f_f: 0.25, delta_u: 0.0, g_glshwi: None, c_100: 27.0 });
    // expected number of warnings per element id
    let mut exp_w = [0u8; 2];
    let mut exp_win = [0u8; 2];
    let mut exp_tb = [0u8; 2];
    let mut i = 0;
    while i < nwalls {
        let (sp, ok_s) = link(s, uid(1), uid(2));
        let (co, ok_c) = link(s, uid(11), uid(12));
        let has_next = s.bool();
        let (nx, ok_n) = link(s, uid(1), uid(2));
        exp_w[i] = (!ok_s) as u8 + (!ok_c) as u8 + (has_next && !ok_n) as u8;
        m.walls.push(Wall { id: uid(31 + i as u128), name: String::new(), bounds: any_bounds(s), cons: co, space: sp, next_to: if has_next { Some(nx) } else { None }, geometry: WallGeom::default() });
        i += 1;
    }
    let mut j = 0;
    while j < nwins {
        // walls 31, 32 exist only if nwalls covers them
        let (wl, ok_w0) = link(s, uid(31), uid(32));
        let ok_w = ok_w0 && ((wl.as_u128() == 31 && nwalls >= 1) || (wl.as_u128() == 32 && nwalls >= 2));
        let (co, ok_c) = link(s, uid(21), uid(22));
        exp_win[j] = (!ok_w) as u8 + (!ok_c) as u8;
        m.windows.push(Window { id: uid(41 + j as u128), name: String::new(), cons: co, wall: wl, geometry: WinGeom::default() });
        j += 1;
    }
    let mut t = 0;
    while t < ntbs {
        let l = s.f32();
        // NaN and -0.0 are excluded: the statement speaks of "negative length" and does not say which way they go
        s.assume(!l.is_nan() && !(l == 0.0 && l.is_sign_negative()));
        exp_tb[t] = (l < 0.0) as u8;
        m.thermal_bridges.push(ThermalBridge { id: uid(51 + t as u128), name: String::new(), kind: ThermalBridgeKind::GENERIC, l, psi: 0.5 });
        t += 1;
    }
    let ws = check(&m);
    let mut got_w = [0u8; 2];
    let mut got_win = [0u8; 2];
    let mut got_tb = [0u8; 2];
    let mut other = 0u8;
    let mut k = 0;
    while inspect && k < ws.len() {
        let w = &ws[k];
        assert!(w.level == WarningLevel::WARNING, "C15:broken links are reported at WARNING level");
        // ids compared as integers (Uuid == is a 16-iteration memcmp in CBMC's model)
        match w.id.map(|x| x.as_u128()) {
            Some(31) => got_w[0] += 1,
            Some(32) => got_w[1] += 1,
            Some(41) => got_win[0] += 1,
            Some(42) => got_win[1] += 1,
            Some(51) => got_tb[0] += 1,
            Some(52) => got_tb[1] += 1,
            _ => other += 1,
        }
        k += 1;
    }
    let total = exp_w[0] + exp_w[1] + exp_win[0] + exp_win[1] + exp_tb[0] + exp_tb[1];
    cover!(total == 0 || (nwalls == 0 && nwins > 0), "closed model");
    cover!(nwalls == 0 || exp_w[0] == 3, "wall with three broken links");
    cover!(nwins == 0 || exp_win[0] == 2, "window with two broken links");
    cover!(ntbs == 0 || exp_tb[0] == 1, "bridge of negative length");
    if inspect {
    assert!(other == 0, "C15:every warning carries the id of a wall, window or bridge with a broken link");
    assert!(got_w[0] == exp_w[0] && got_w[1] == exp_w[1], "C15:one warning per broken wall link (space, construction, adjacent space)");
    assert!(got_win[0] == exp_win[0] && got_win[1] == exp_win[1], "C15:one warning per broken window link (wall, construction)");
    assert!(got_tb[0] == exp_tb[0] && got_tb[1] == exp_tb[1], "C15:one warning per bridge of negative length");
    }
    assert!(ws.len() == total as usize, "C15:nothing else is reported");
    std::mem::forget(m);
    std::mem::forget(ws);
}

/// One wall, ONE symbolic link (the other two concretely valid): at most one warning, read back at position 0.
/// Small enough for a trace to be extracted when it fails (the all-links harnesses need > 48 GB for that).
fn one_link_case<S: Src>(s: &mut S, which: u8) {
    let mut m = Model::default();
    m.spaces.push(Space { id: uid(1), name: String::new(), multiplier: 1.0, kind: SpaceType::CONDITIONED, inside_tenv: true, height: 3.0, z: 0.0, loads: None, thermostat: None, n_v: None, illuminance: None });
    m.spaces.push(Space { id: uid(2), name: String::new(), multiplier: 1.0, kind: SpaceType::CONDITIONED, inside_tenv: true, height: 3.0, z: 0.0, loads: None, thermostat: None, n_v: None, illuminance: None });
    m.cons.wallcons.push(WallCons { id: uid(11), name: String::new(), layers: Vec::new(), absorptance: 0.5 });
    let (l, ok) = if which == 1 { link(s, uid(11), uid(11)) } else { link(s, uid(1), uid(2)) };
    let has_next = which != 2 || s.bool();
    let w = Wall { id: uid(31), name: String::new(), bounds: any_bounds(s),
        cons: if which == 1 { l } else { uid(11) },
        space: if which == 0 { l } else { uid(1) },
        next_to: if which == 2 { if has_next { Some(l) } else { None } } else { Some(uid(2)) },
        geometry: WallGeom::default() };
    m.walls.push(w);
    let ws = check(&m);
    let exp = (has_next || which != 2) && !ok;
    cover!(exp, "the link is broken");
    cover!(!exp, "closed model");
    assert!(ws.len() == exp as usize, "C15:exactly one warning for a broken wall link, none for a closed model");
    if ws.len() > 0 {
        assert!(ws[0].level == WarningLevel::WARNING && ws[0].id.map(|x| x.as_u128()) == Some(31), "C15:the warning carries the wall's id at WARNING level");
    }
    std::mem::forget(m);
    std::mem::forget(ws);
}

harnesses! {
    /// wall -> space link symbolic
    #[kani::unwind(5)]
    #[kani::stub(alloc::fmt::format, crate::stubs::fmt_stub)]
    fn check_wall_space(s) { one_link_case(s, 0) }

    /// wall -> construction link symbolic
    #[kani::unwind(5)]
    #[kani::stub(alloc::fmt::format, crate::stubs::fmt_stub)]
    fn check_wall_cons(s) { one_link_case(s, 1) }

    /// wall -> adjacent space link symbolic (none / valid a / valid b / nil / absent)
    #[kani::unwind(5)]
    #[kani::stub(alloc::fmt::format, crate::stubs::fmt_stub)]
    fn check_wall_next(s) { one_link_case(s, 2) }

    /// 1 wall, all three links symbolic: exact count, and the FIRST warning (concrete position 0) carries
    /// the wall's id at WARNING level.  Reading back warnings at symbolic positions after three conditional
    /// pushes exhausts the solver (73 M variables measured), so later positions are covered by the count only.
    #[kani::unwind(5)]
    #[kani::stub(alloc::fmt::format, crate::stubs::fmt_stub)]
    fn check_wall_first(s) {
        // one space and one construction exist (the larger sets are exercised by check_len_111): keeps the
        // id sets small enough for the read-back to fit in memory
        let mut m = Model::default();
        m.spaces.push(Space { id: uid(1), name: String::new(), multiplier: 1.0, kind: SpaceType::CONDITIONED, inside_tenv: true, height: 3.0, z: 0.0, loads: None, thermostat: None, n_v: None, illuminance: None });
        m.cons.wallcons.push(WallCons { id: uid(11), name: String::new(), layers: Vec::new(), absorptance: 0.5 });
        let (sp, ok_s) = link(s, uid(1), uid(1));
        let (co, ok_c) = link(s, uid(11), uid(11));
        let has_next = s.bool();
        let (nx, ok_n) = link(s, uid(1), uid(1));
        m.walls.push(Wall { id: uid(31), name: String::new(), bounds: BoundaryType::INTERIOR, cons: co, space: sp, next_to: if has_next { Some(nx) } else { None }, geometry: WallGeom::default() });
        let ws = check(&m);
        let exp = (!ok_s) as usize + (!ok_c) as usize + (has_next && !ok_n) as usize;
        cover!(exp == 3, "three broken links");
        cover!(exp == 0, "closed model");
        assert!(ws.len() == exp, "C15:one warning per broken wall link; nothing for a closed model");
        if ws.len() > 0 {
            assert!(ws[0].level == WarningLevel::WARNING, "C15:broken links are reported at WARNING level");
            assert!(ws[0].id.map(|x| x.as_u128()) == Some(31), "C15:the warning carries the wall's id");
        }
        std::mem::forget(m);
        std::mem::forget(ws);
    }

    /// window (wall and construction links symbolic) -- ids and levels read back
    #[kani::unwind(5)]
    #[kani::stub(alloc::fmt::format, crate::stubs::fmt_stub)]
    fn check_win(s) { check_case(s, 0, 1, 0) }

    /// two thermal bridges of any length -- ids and levels read back
    #[kani::unwind(5)]
    #[kani::stub(alloc::fmt::format, crate::stubs::fmt_stub)]
    fn check_tb(s) { check_case(s, 0, 0, 2) }

    /// 1 wall + 1 window + 1 bridge, every link symbolic: exact number of warnings
    #[kani::unwind(5)]
    #[kani::stub(alloc::fmt::format, crate::stubs::fmt_stub)]
    fn check_len_111(s) { check_case_x(s, 1, 1, 1, false) }

    /// 2 walls + 2 windows + 2 bridges: exact number of warnings
    #[kani::unwind(5)]
    #[kani::stub(alloc::fmt::format, crate::stubs::fmt_stub)]
    fn check_len_222(s) { check_case_x(s, 2, 2, 2, false) }
}
