//! C11 — classifiers (all f32 in [-720,1080]), parser/model agreement, areas, volumes, envelope
//! membership, ventilation-rate consistency.
use crate::common::*;

/// Exact sector of an angle for the roof/wall/floor classes, by comparison only.
/// Returns (class, class accepted inside the guard band or None).
fn tilt_spec(t: f32) -> (Tilt, Option<Tilt>) {
    let mut k = -2i32;
    while k <= 3 {
        let base = 360.0 * k as f32; // exact
        if t >= base && t < base + 360.0 {
            let cls = if t <= base + 60.0 {
                Tilt::TOP
            } else if t < base + 120.0 {
                Tilt::SIDE
            } else if t < base + 240.0 {
                Tilt::BOTTOM
            } else if t < base + 300.0 {
                Tilt::SIDE
            } else {
                Tilt::TOP
            };
            // guard band of 1e-3 degrees around each class boundary: either neighbour accepted
            let bs = [(60.0f32, Tilt::TOP, Tilt::SIDE), (120.0, Tilt::SIDE, Tilt::BOTTOM), (240.0, Tilt::BOTTOM, Tilt::SIDE), (300.0, Tilt::SIDE, Tilt::TOP)];
            let mut alt = None;
            let mut i = 0;
            while i < 4 {
                let (b, lo, hi) = bs[i];
                // inside the band either neighbour is accepted, EXCEPT at the boundary value itself: base + b is
                // exactly representable and normalises exactly, so there the exact class is demanded
                if t >= base + b - 1e-3 && t <= base + b + 1e-3 && t != base + b {
                    alt = Some(if cls == lo { hi } else { lo });
                }
                i += 1;
            }
            return (cls, alt);
        }
        k += 1;
    }
    (Tilt::TOP, None)
}

const OB: [(f32, Orientation); 9] = [
    (18.0, Orientation::S),
    (69.0, Orientation::SE),
    (120.0, Orientation::E),
    (157.5, Orientation::NE),
    (202.5, Orientation::N),
    (240.0, Orientation::NW),
    (291.0, Orientation::W),
    (342.0, Orientation::SW),
    (360.0, Orientation::S),
];

fn orient_spec(a: f32) -> (Orientation, Option<Orientation>) {
    let mut k = -2i32;
    while k <= 3 {
        let base = 360.0 * k as f32;
        if a >= base && a < base + 360.0 {
            let mut cls = Orientation::S;
            let mut i = 0;
            while i < 9 {
                if a < base + OB[i].0 {
                    cls = OB[i].1;
                    break;
                }
                i += 1;
            }
            let mut alt = None;
            let mut i = 0;
            while i < 8 {
                let b = OB[i].0;
                if a >= base + b - 1e-3 && a <= base + b + 1e-3 && a != base + b {
                    alt = Some(if cls == OB[i].1 { OB[i + 1].1 } else { OB[i].1 });
                }
                i += 1;
            }
            return (cls, alt);
        }
        k += 1;
    }
    (Orientation::S, None)
}

harnesses! {
    /// Tilt::from(f32) equals the exact mod-360 sector for every f32 in [-720,1080]
    #[kani::unwind(10)]
    fn classify_tilt(s) {
        let t = s.fin(-720.0, 1080.0);
        let got = Tilt::from(t);
        let (cls, alt) = tilt_spec(t);
        cover!(alt.is_some() && got != cls, "band used");
        cover!(t == -240.0, "exact boundary value below zero");
        cover!(t < 0.0 && got == Tilt::BOTTOM, "negative angle classified BOTTOM");
        cover!(t > 360.0 && got == Tilt::SIDE, "angle above 360 classified SIDE");
        assert!(got == cls || Some(got) == alt, "C11:tilt class = exact mod-360 sector");
    }

    /// Orientation::from(f32) equals the exact mod-360 compass sector for every f32 in [-720,1080]
    #[kani::unwind(12)]
    fn classify_orientation(s) {
        let a = s.fin(-720.0, 1080.0);
        let got = Orientation::from(a);
        let (cls, alt) = orient_spec(a);
        cover!(a < 0.0 && got == Orientation::NW, "negative azimuth classified NW");
        cover!(a > 360.0 && got == Orientation::E, "azimuth above 360 classified E");
        assert!(got == cls || Some(got) == alt, "C11:orientation class = exact mod-360 sector");
    }

    /// hulc parser's Wall::position() == bemodel Tilt::from for every f32 tilt in [0,360]
    fn tilt_parser_vs_model(s) {
        let t = s.fin(0.0, 360.0);
        let w = hulc::bdl::Wall { tilt: t, ..Default::default() };
        let p = w.position();
        let m = Tilt::from(t);
        let same = match (p, m) {
            (hulc::bdl::Tilt::TOP, Tilt::TOP) | (hulc::bdl::Tilt::SIDE, Tilt::SIDE) | (hulc::bdl::Tilt::BOTTOM, Tilt::BOTTOM) => true,
            _ => false,
        };
        cover!(m == Tilt::BOTTOM, "bottom reachable");
        cover!(m == Tilt::SIDE && t > 180.0, "upper side sector reachable");
        assert!(same, "C11:parser and model classify tilt identically");
        std::mem::forget(w);
    }

    /// Orientation::from(&Wall) is HZ exactly when the tilt class is not SIDE
    #[kani::unwind(12)]
    fn wall_orientation(s) {
        let t = s.fin(-720.0, 1080.0);
        let a = s.fin(-720.0, 1080.0);
        let w = Wall { id: uid(1), name: String::new(), bounds: BoundaryType::EXTERIOR, cons: uid(2), space: uid(3), next_to: None,
            geometry: WallGeom { tilt: t, azimuth: a, position: None, polygon: Vec::new() } };
        let o = Orientation::from(&w);
        let tl = Tilt::from(&w);
        assert!(tl == Tilt::from(t), "C11:wall tilt class is the class of its tilt angle");
        cover!(tl == Tilt::SIDE && o == Orientation::W, "vertical wall facing west");
        if tl == Tilt::SIDE {
            assert!(o == Orientation::from(a) && o != Orientation::HZ, "C11:vertical wall takes compass class of azimuth");
        } else {
            assert!(o == Orientation::HZ, "C11:non-vertical wall is HZ");
        }
        std::mem::forget(w);
    }
}
