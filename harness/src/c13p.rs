//! C13 (continued) — one inductive step of the BVH construction: partitioning a node's elements makes
//! progress (both parts non-empty) and loses nothing.  Termination of BVH::build for ANY number of
//! elements follows by induction on the element count (every split strictly shrinks both children);
//! this is the clause "building the acceleration structure terminates ... including many with coinciding
//! centres".  The whole build through the split path is not tractable (DESIGN section 0).
use crate::common::*;
use bemodel::energy::{Bounded, AABB, BVH};

/// box centred at (cx, cy, cz) (integers) with half-size h
fn cbox(cx: i32, cy: i32, cz: i32, h: i32) -> AABB {
    AABB::new(point![(cx - h) as f32, (cy - h) as f32, (cz - h) as f32], point![(cx + h) as f32, (cy + h) as f32, (cz + h) as f32])
}

fn part_case<S: Src>(s: &mut S, n: usize) {
    let mut v: Vec<AABB> = Vec::new();
    let mut all_same = true;
    let (mut px, mut py, mut pz) = (0, 0, 0);
    let mut i = 0;
    while i < n {
        let (cx, cy, cz, h) = (s.int(-2, 2), s.int(-2, 2), s.int(-2, 2), s.int(1, 2));
        if i > 0 && (cx != px || cy != py || cz != pz) { all_same = false; }
        px = cx; py = cy; pz = cz;
        v.push(cbox(cx, cy, cz, h));
        i += 1;
    }
    let (l, r) = BVH::<AABB>::verif_partition(v);
    cover!(all_same, "all centres coincide");
    cover!(!all_same, "distinct centres");
    assert!(l.len() + r.len() == n, "C13:partition loses no element");
    assert!(l.len() >= 1 && r.len() >= 1, "C13:partition makes progress: both parts are non-empty (so the build terminates)");
    std::mem::forget((l, r));
}

harnesses! {
    /// two elements (the smallest set that is ever split)
    #[kani::unwind(6)]
    fn partition_progress_2(s) { part_case(s, 2) }

    /// three elements
    #[kani::unwind(7)]
    fn partition_progress_3(s) { part_case(s, 3) }
}
