//! Stubs used with `-Z stubbing` (cfg(kani) only).  Each is listed in the evidence of the checks
//! that use it.

/// `alloc::fmt::format` -> empty string: message texts are outside every claim.
pub fn fmt_stub(_a: std::fmt::Arguments<'_>) -> String {
    String::new()
}

pub use crate::shared_stubs::round_stub;

/// `f32::ln` as an uninterpreted *function*: a fresh arbitrary value per distinct argument,
/// memoised so that equal arguments give equal results (CBMC's logf does not guarantee that).
static mut LN_ARGS: [f32; 8] = [0.0; 8];
static mut LN_VALS: [f32; 8] = [0.0; 8];
static mut LN_N: usize = 0;
pub fn ln_stub(x: f32) -> f32 {
    unsafe {
        let mut i = 0;
        while i < LN_N {
            if LN_ARGS[i].to_bits() == x.to_bits() {
                return LN_VALS[i];
            }
            i += 1;
        }
        let v: f32 = kani::any();
        kani::assume(v.is_finite()); // ln of a positive finite argument is a finite number
        kani::assume(LN_N < 8);
        LN_ARGS[LN_N] = x;
        LN_VALS[LN_N] = v;
        LN_N += 1;
        v
    }
}

/// `Model::compute_fshobst` -> empty map (obstruction factors are inputs of the harnesses that
/// need them; the ray-casting itself is checked under C12/C13).
pub fn fshobst_stub(_m: &bemodel::Model) -> bemodel::kani_models::BTreeMap<bemodel::Uuid, f32> {
    bemodel::kani_models::BTreeMap::new()
}

/// `<Uuid as PartialEq>::eq` compares the 16 bytes with memcmp (a 16-iteration loop in CBMC's model);
/// the stub compares the same 128 bits as one integer: identical meaning, no loop.
pub fn uuid_eq_stub(a: &bemodel::Uuid, b: &bemodel::Uuid) -> bool {
    a.as_u128() == b.as_u128()
}

/// Cheaper stand-in for `f32::ln`: a fixed, deterministic, non-identity function of the argument's bits
/// (mantissa scrambled, sign/exponent kept, so finite in -> finite out).  Like the memoised version it only
/// provides "ln is a function"; unlike it, it needs no lookup table, which the solver could not digest
/// within 45 min for the 13370 kernels.  A mutation that drops a `ln` call, or changes its argument, still
/// changes the result; the numeric value of ln remains outside every claim.
pub fn ln_bits_stub(x: f32) -> f32 {
    f32::from_bits(x.to_bits() ^ 0x0005_a5a5)
}
