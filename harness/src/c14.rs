//! C14 — totality of the indicator computation: no crash on dangling links, empty collections,
//! degenerate polygons, schedules of inconsistent length; finite numbers on sane models.
use crate::common::*;
use crate::c06::{rect, space, wall};
use crate::c10::ORI;
use bemodel::energy::verif_hooks::*;
use bemodel::energy::EnergyProps;

fn table() -> HashMap<Orientation, f32> {
    let mut m: HashMap<Orientation, f32> = HashMap::new();
    let mut i = 0;
    while i < 9 {
        m.insert(ORI[i], 50.0 + i as f32);
        i += 1;
    }
    m
}

harnesses! {
    /// dangling / nil links (wall->space, wall->adjacent space, window->wall, constructions), negative sizes:
    /// EnergyProps::from, KData::from and N50Data::from return.  Element counts are concrete (one of each):
    /// optional elements would make vector lengths symbolic, which symbolic execution did not survive (25 min).
    #[kani::unwind(6)]
    #[kani::stub(alloc::fmt::format, crate::stubs::fmt_stub)]
    #[kani::stub(f32::round, crate::stubs::round_stub)]
    #[kani::stub(bemodel::Model::compute_fshobst, crate::stubs::fshobst_stub)]
    fn props_total_dangling(s) {
        let mut m = Model::default();
        m.spaces.push(space(1, any_kind(s), s.bool(), 3.0, 0.0, None));
        let sp = match s.below(3) { 0 => uid(1), 1 => Uuid::nil(), _ => uid(7) };
        let nx = match s.below(3) { 0 => None, 1 => Some(uid(1)), _ => Some(uid(7)) };
        let tilt = match s.below(3) { 0 => 0.0, 1 => 90.0, _ => 180.0 };
        m.walls.push(wall(10, any_bounds(s), 9, 0, nx, tilt, vec![point![0.0, 0.0], point![2.0, 0.0], point![0.0, 2.0]]));
        m.walls[0].space = sp;
        m.windows.push(Window { id: uid(40), name: String::new(), cons: uid(8), wall: if s.bool() { uid(10) } else { uid(7) }, geometry: WinGeom { position: None, height: s.gi(-1, 2), width: s.gi(-1, 2), setback: 0.0 } });
        m.thermal_bridges.push(ThermalBridge { id: uid(50), name: String::new(), kind: ThermalBridgeKind::GENERIC, l: s.gi(-1, 1), psi: s.gi(-1, 1) });
        let p = EnergyProps::from(&m);
        let k = KData::from(&p);
        let n = N50Data::from(&p);
        cover!(sp == uid(7), "wall whose space does not exist");
        cover!(sp == Uuid::nil() && nx == Some(uid(7)), "nil space and dangling neighbour");
        assert!(p.walls.len() == 1 && p.windows.len() == 1, "C14:indicator computation returns a result");
        assert!(!k.K.is_nan() && !n.n50.is_nan(), "C14:K and n50 are numbers");
        std::mem::forget((m, p, k, n));
    }
}

/// dangling / nil links everywhere, polygon of `nv` vertices (concrete count), optional elements symbolic
#[allow(dead_code)]
fn links_case<S: Src>(s: &mut S, nv: usize) {
        let mut m = Model::default();
        let has_space = s.bool();
        if has_space {
            m.spaces.push(space(1, any_kind(s), s.bool(), 3.0, 0.0, None));
        }
        let has_wall = s.bool();
        if has_wall {
            let mut poly: Vec<Point2> = Vec::new();
            let mut i = 0;
            while i < nv { poly.push(point![s.gi(-2, 2), s.gi(-2, 2)]); i += 1; }
            let sp = match s.below(3) { 0 => uid(1), 1 => Uuid::nil(), _ => uid(7) };
            let nx = match s.below(3) { 0 => None, 1 => Some(uid(1)), _ => Some(uid(7)) };
            let tilt = match s.below(3) { 0 => 0.0, 1 => 90.0, _ => 180.0 };
            m.walls.push(wall(10, any_bounds(s), 9, 0, nx, tilt, poly));
            m.walls[0].space = sp;
        }
        if s.bool() {
            m.windows.push(Window { id: uid(40), name: String::new(), cons: uid(8), wall: if s.bool() { uid(10) } else { uid(7) }, geometry: WinGeom { position: None, height: s.gi(-1, 2), width: s.gi(-1, 2), setback: 0.0 } });
        }
        if s.bool() {
            m.thermal_bridges.push(ThermalBridge { id: uid(50), name: String::new(), kind: ThermalBridgeKind::GENERIC, l: s.gi(-1, 1), psi: s.gi(-1, 1) });
        }
        let p = EnergyProps::from(&m);
        let k = KData::from(&p);
        let n = N50Data::from(&p);
        let q = QSolJulData::from(&p, &table());
        cover!(!has_space && has_wall, "wall without any space");
        cover!(!has_wall && !has_space, "empty model");
        assert!(p.walls.len() == has_wall as usize, "C14:indicator computation returns a result");
        std::mem::forget((m, p, k, n, q));
}
