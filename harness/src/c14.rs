//! C14 — totality of the indicator computation: no crash on dangling links, empty collections,
//! degenerate polygons, schedules of inconsistent length; finite numbers on sane models.
use crate::common::*;
use crate::c06::{rect, space, wall};
use crate::c10::ORI;
use bemodel::energy::verif_hooks::*;
use bemodel::energy::EnergyProps;

fn table() -> HashMap<Orientation, f32> {
    let mut m: HashMap<Orientation, f32> = HashMap::new();
    let mut i = 0;
    while i < 9 {
        m.insert(ORI[i], 50.0 + i as f32);
        i += 1;
    }
    m
}

harnesses! {
    /// dangling / nil links everywhere, empty or degenerate polygons, empty model: props and the three indicators return
    #[kani::unwind(6)]
    #[kani::stub(alloc::fmt::format, crate::stubs::fmt_stub)]
    #[kani::stub(f32::round, crate::stubs::round_stub)]
    #[kani::stub(bemodel::Model::compute_fshobst, crate::stubs::fshobst_stub)]
    fn props_total_links(s) { links_case(s, 3) }

    /// same with an empty polygon
    #[kani::unwind(6)]
    #[kani::stub(alloc::fmt::format, crate::stubs::fmt_stub)]
    #[kani::stub(f32::round, crate::stubs::round_stub)]
    #[kani::stub(bemodel::Model::compute_fshobst, crate::stubs::fshobst_stub)]
    fn props_total_links_nopoly(s) { links_case(s, 0) }

    /// ... and with a two-vertex polygon
    #[kani::unwind(6)]
    #[kani::stub(alloc::fmt::format, crate::stubs::fmt_stub)]
    #[kani::stub(f32::round, crate::stubs::round_stub)]
    #[kani::stub(bemodel::Model::compute_fshobst, crate::stubs::fshobst_stub)]
    fn props_total_links_degenerate(s) { links_case(s, 2) }

    /// schedules of inconsistent length and loads pointing to absent schedules: props return
    #[kani::unwind(8)]
    #[kani::stub(alloc::fmt::format, crate::stubs::fmt_stub)]
    #[kani::stub(f32::round, crate::stubs::round_stub)]
    #[kani::stub(bemodel::Model::compute_fshobst, crate::stubs::fshobst_stub)]
    fn props_total_schedules(s) {
        let mut m = Model::default();
        m.spaces.push(space(1, SpaceType::CONDITIONED, true, 3.0, 0.0, None));
        m.spaces.push(space(2, SpaceType::CONDITIONED, true, 3.0, 0.0, None));
        m.spaces[0].loads = Some(uid(101));
        m.spaces[1].loads = if s.bool() { Some(uid(102)) } else { Some(uid(109)) };
        m.walls.push(wall(10, BoundaryType::GROUND, 9, 1, None, 180.0, rect(2.0, 2.0)));
        m.walls.push(wall(11, BoundaryType::GROUND, 9, 2, None, 180.0, rect(2.0, 2.0)));
        let y1 = match s.below(3) { 0 => Some(uid(121)), 1 => Some(uid(129)), _ => None };
        m.loads.push(SpaceLoads { id: uid(101), name: String::new(), area_per_person: 10.0, people_schedule: y1, people_sensible: 1.0, people_latent: 1.0, equipment: 1.0, equipment_schedule: None, lighting: 1.0, lighting_schedule: None });
        m.loads.push(SpaceLoads { id: uid(102), name: String::new(), area_per_person: 10.0, people_schedule: Some(uid(122)), people_sensible: 1.0, people_latent: 1.0, equipment: 1.0, equipment_schedule: None, lighting: 1.0, lighting_schedule: None });
        // yearly schedules of symbolic (and possibly different) length 0..2 days
        let (n1, n2) = (s.u32(), s.u32());
        s.assume(n1 <= 2 && n2 <= 2);
        m.schedules.year.push(Schedule { id: uid(121), name: String::new(), values: vec![(uid(131), n1)] });
        m.schedules.year.push(Schedule { id: uid(122), name: String::new(), values: vec![(uid(131), n2)] });
        // weekly schedule whose daily schedule may be absent
        let day_ok = s.bool();
        m.schedules.week.push(ScheduleWeek { id: uid(131), name: String::new(), values: vec![(if day_ok { uid(141) } else { uid(149) }, 7)] });
        // daily schedule with 0 or 2 values (not 24)
        let nvals = if s.bool() { 0 } else { 2 };
        let mut vals: Vec<f32> = Vec::new();
        let mut i = 0;
        while i < nvals { vals.push(s.g(2) * 0.5); i += 1; }
        m.schedules.day.push(ScheduleDay { id: uid(141), name: String::new(), values: vals });
        let p = EnergyProps::from(&m);
        cover!(n1 != n2 && day_ok, "yearly schedules of different length");
        cover!(!day_ok && n1 > 0, "weekly schedule points to an absent daily schedule");
        assert!(p.spaces.len() == 2, "C14:indicator computation returns a result");
        assert!(p.global.occ_spaces_hours_in_use <= 48, "C14:occupied hours bounded by the hours of the schedules");
        std::mem::forget((m, p));
    }
}

/// dangling / nil links everywhere, polygon of `nv` vertices (concrete count), optional elements symbolic
fn links_case<S: Src>(s: &mut S, nv: usize) {
        let mut m = Model::default();
        let has_space = s.bool();
        if has_space {
            m.spaces.push(space(1, any_kind(s), s.bool(), 3.0, 0.0, None));
        }
        let has_wall = s.bool();
        if has_wall {
            let mut poly: Vec<Point2> = Vec::new();
            let mut i = 0;
            while i < nv { poly.push(point![s.gi(-2, 2), s.gi(-2, 2)]); i += 1; }
            let sp = match s.below(3) { 0 => uid(1), 1 => Uuid::nil(), _ => uid(7) };
            let nx = match s.below(3) { 0 => None, 1 => Some(uid(1)), _ => Some(uid(7)) };
            let tilt = match s.below(3) { 0 => 0.0, 1 => 90.0, _ => 180.0 };
            m.walls.push(wall(10, any_bounds(s), 9, 0, nx, tilt, poly));
            m.walls[0].space = sp;
        }
        if s.bool() {
            m.windows.push(Window { id: uid(40), name: String::new(), cons: uid(8), wall: if s.bool() { uid(10) } else { uid(7) }, geometry: WinGeom { position: None, height: s.gi(-1, 2), width: s.gi(-1, 2), setback: 0.0 } });
        }
        if s.bool() {
            m.thermal_bridges.push(ThermalBridge { id: uid(50), name: String::new(), kind: ThermalBridgeKind::GENERIC, l: s.gi(-1, 1), psi: s.gi(-1, 1) });
        }
        let p = EnergyProps::from(&m);
        let k = KData::from(&p);
        let n = N50Data::from(&p);
        let q = QSolJulData::from(&p, &table());
        cover!(!has_space && has_wall, "wall without any space");
        cover!(!has_wall && !has_space, "empty model");
        assert!(p.walls.len() == has_wall as usize, "C14:indicator computation returns a result");
        std::mem::forget((m, p, k, n, q));
}
