//! C14 — totality of the indicator computation: no crash on dangling links, empty collections,
//! degenerate polygons, schedules of inconsistent length; finite numbers on sane models.
use crate::common::*;
use crate::c06::{rect, space, wall};
use crate::c10::ORI;
use bemodel::energy::verif_hooks::*;
use bemodel::energy::EnergyProps;

fn table() -> HashMap<Orientation, f32> {
    let mut m: HashMap<Orientation, f32> = HashMap::new();
    let mut i = 0;
    while i < 9 {
        m.insert(ORI[i], 50.0 + i as f32);
        i += 1;
    }
    m
}

harnesses! {
    /// dangling / nil links (wall->space, wall->adjacent space, window->wall, constructions), negative sizes:
    /// EnergyProps::from, KData::from and N50Data::from return.  Element counts are concrete (one of each):
    /// optional elements would make vector lengths symbolic, which symbolic execution did not survive (25 min).
    #[kani::unwind(6)]
    #[kani::stub(alloc::fmt::format, crate::stubs::fmt_stub)]
    #[kani::stub(f32::round, crate::stubs::round_stub)]
    #[kani::stub(bemodel::Model::compute_fshobst, crate::stubs::fshobst_stub)]
    fn props_total_dangling(s) {
        let mut m = Model::default();
        m.spaces.push(space(1, any_kind(s), s.bool(), 3.0, 0.0, None));
        let sp = match s.below(3) { 0 => uid(1), 1 => Uuid::nil(), _ => uid(7) };
        let nx = match s.below(3) { 0 => None, 1 => Some(uid(1)), _ => Some(uid(7)) };
        let tilt = match s.below(3) { 0 => 0.0, 1 => 90.0, _ => 180.0 };
        m.walls.push(wall(10, any_bounds(s), 9, 0, nx, tilt, vec![point![0.0, 0.0], point![2.0, 0.0], point![0.0, 2.0]]));
        m.walls[0].space = sp;
        m.windows.push(Window { id: uid(40), name: String::new(), cons: uid(8), wall: if s.bool() { uid(10) } else { uid(7) }, geometry: WinGeom { position: None, height: s.gi(-1, 2), width: s.gi(-1, 2), setback: 0.0 } });
        m.thermal_bridges.push(ThermalBridge { id: uid(50), name: String::new(), kind: ThermalBridgeKind::GENERIC, l: s.gi(-1, 1), psi: s.gi(-1, 1) });
        let p = EnergyProps::from(&m);
        let k = KData::from(&p);
        let n = N50Data::from(&p);
        cover!(sp == uid(7), "wall whose space does not exist");
        cover!(sp == Uuid::nil() && nx == Some(uid(7)), "nil space and dangling neighbour");
        assert!(p.walls.len() == 1 && p.windows.len() == 1, "C14:indicator computation returns a result");
        assert!(!k.K.is_nan() && !n.n50.is_nan(), "C14:K and n50 are numbers");
        std::mem::forget((m, p, k, n));
    }

    /// referentially closed model with positive sizes and non-negative data: every reported number is finite
    #[kani::unwind(6)]
    #[kani::stub(alloc::fmt::format, crate::stubs::fmt_stub)]
    #[kani::stub(f32::round, crate::stubs::round_stub)]
    #[kani::stub(bemodel::Model::compute_fshobst, crate::stubs::fshobst_stub)]
    fn finite_when_sane(s) {
        let mut m = Model::default();
        m.cons.materials.push(Material { id: uid(1), name: String::new(), properties: MatProps::Resistance { resistance: s.g(7) * 0.5, vapour_diff: None } });
        m.cons.wallcons.push(WallCons { id: uid(3), name: String::new(), layers: vec![Layer { material: uid(1), e: 0.25 }], absorptance: 0.6 });
        m.cons.glasses.push(Glass { id: uid(31), name: String::new(), u_value: 0.5 + s.g(7) * 0.5, g_gln: s.g(4) * 0.25 });
        m.cons.frames.push(Frame { id: uid(32), name: String::new(), u_value: 0.5 + s.g(7) * 0.5, absorptivity: 0.5 });
        m.cons.wincons.push(WinCons { id: uid(33), name: String::new(), glass: uid(31), frame: uid(32), f_f: s.g(3) * 0.25, delta_u: 0.0, g_glshwi: None, c_100: 27.0 });
        m.spaces.push(space(1, any_kind(s), true, 2.0 + s.g(2), 0.0, None));
        m.spaces[0].multiplier = 1.0 + s.g(1);
        let side = 1.0 + s.g(3);
        m.walls.push(wall(10, BoundaryType::EXTERIOR, 3, 1, None, 180.0, rect(side, side)));
        m.walls.push(wall(11, BoundaryType::EXTERIOR, 3, 1, None, 90.0, rect(side, 2.0)));
        m.windows.push(Window { id: uid(40), name: String::new(), cons: uid(33), wall: uid(11), geometry: WinGeom { position: None, height: 0.5, width: 1.0, setback: 0.0 } });
        m.thermal_bridges.push(ThermalBridge { id: uid(50), name: String::new(), kind: ThermalBridgeKind::CORNER, l: s.g(3), psi: s.g(2) * 0.5 });
        m.meta.global_ventilation_l_s = if s.bool() { Some(10.0 + s.g(3)) } else { None };
        m.meta.n50_test_ach = if s.bool() { Some(s.g(3)) } else { None };
        let p = EnergyProps::from(&m);
        let k = KData::from(&p);
        let n = N50Data::from(&p);
        let g = &p.global;
        cover!(g.a_ref > 0.0, "habitable model");
        cover!(g.a_ref == 0.0, "uninhabited space only");
        assert!(g.a_ref.is_finite() && g.vol_env_gross.is_finite() && g.vol_env_net.is_finite() && g.compactness.is_finite() && g.occ_spaces_average_load.is_finite(), "C14:global figures of a sane model are finite");
        assert!(k.K.is_finite() && k.summary.a.is_finite() && k.summary.au.is_finite(), "C14:K of a sane model is finite");
        assert!(n.n50.is_finite() && n.n50_ref.is_finite() && n.walls_c.is_finite() && n.windows_c.is_finite(), "C14:n50 figures of a sane model are finite");
        let w = p.walls.get(&uid(11)).unwrap();
        assert!(w.u_value.map_or(false, |u| u.is_finite()) && w.area_net.is_finite(), "C14:element figures of a sane model are finite");
        std::mem::forget((m, p, k, n));
    }
}

/// dangling / nil links everywhere, polygon of `nv` vertices (concrete count), optional elements symbolic
#[allow(dead_code)]
fn links_case<S: Src>(s: &mut S, nv: usize) {
        let mut m = Model::default();
        let has_space = s.bool();
        if has_space {
            m.spaces.push(space(1, any_kind(s), s.bool(), 3.0, 0.0, None));
        }
        let has_wall = s.bool();
        if has_wall {
            let mut poly: Vec<Point2> = Vec::new();
            let mut i = 0;
            while i < nv { poly.push(point![s.gi(-2, 2), s.gi(-2, 2)]); i += 1; }
            let sp = match s.below(3) { 0 => uid(1), 1 => Uuid::nil(), _ => uid(7) };
            let nx = match s.below(3) { 0 => None, 1 => Some(uid(1)), _ => Some(uid(7)) };
            let tilt = match s.below(3) { 0 => 0.0, 1 => 90.0, _ => 180.0 };
            m.walls.push(wall(10, any_bounds(s), 9, 0, nx, tilt, poly));
            m.walls[0].space = sp;
        }
        if s.bool() {
            m.windows.push(Window { id: uid(40), name: String::new(), cons: uid(8), wall: if s.bool() { uid(10) } else { uid(7) }, geometry: WinGeom { position: None, height: s.gi(-1, 2), width: s.gi(-1, 2), setback: 0.0 } });
        }
        if s.bool() {
            m.thermal_bridges.push(ThermalBridge { id: uid(50), name: String::new(), kind: ThermalBridgeKind::GENERIC, l: s.gi(-1, 1), psi: s.gi(-1, 1) });
        }
        let p = EnergyProps::from(&m);
        let k = KData::from(&p);
        let n = N50Data::from(&p);
        let q = QSolJulData::from(&p, &table());
        cover!(!has_space && has_wall, "wall without any space");
        cover!(!has_wall && !has_space, "empty model");
        assert!(p.walls.len() == has_wall as usize, "C14:indicator computation returns a result");
        std::mem::forget((m, p, k, n, q));
}
