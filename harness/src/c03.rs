//! C03 (partial) — angle bookkeeping of the conversion: azimuth convention and its normalisation,
//! mirror_y of outlines.  Positions (rotation matrices) are outside: sin/cos are not interpreted by CBMC.
use crate::common::*;
use bemodel::convert::verif_hooks::{normalize_azimuth, orientation_bdl_to_52016};

harnesses! {
    /// BDL azimuth (N=0, E=+90) -> ISO 52016-1 azimuth (S=0, E=+90): 180 - a, wrapped into [-180, 180)
    fn azimuth_convention(s) {
        let k = s.i32();
        s.assume(k >= -2880 && k <= 4320);
        let a = k as f32 * 0.25; // 0.25 degree grid over [-720, 1080]: every value exact (two whole turns either way)
        let got = orientation_bdl_to_52016(a);
        // exact residue of 180 - a in [-180, 180) on the quarter-degree integer grid
        let r4 = 720 - k; // (180 - a) * 4
        let mut w = r4;
        while w >= 720 { w -= 1440; }
        while w < -720 { w += 1440; }
        cover!(k == 0, "north");
        cover!(k == 360, "east");
        cover!(k < -1440, "more than one turn below");
        cover!(k > 3000, "more than one turn above");
        assert!(got >= -180.0 && got <= 180.0, "C03:azimuth stays in [-180,180]");
        assert!(got == w as f32 * 0.25 || (w == -720 && got == 180.0), "C03:azimuth = 180 - a modulo 360 (N->180, E->90, S->0, W->-90)");
        let again = normalize_azimuth(got);
        assert!(again == got || (got == 180.0 && again == -180.0), "C03:normalisation is idempotent");
    }

    /// adding delta to the global deviation shifts every azimuth by -delta modulo 360
    fn azimuth_shift(s) {
        let (k, d) = (s.i32(), s.i32());
        s.assume(k >= 0 && k < 1440 && d >= 0 && d < 1440);
        let a0 = orientation_bdl_to_52016(k as f32 * 0.25);
        let a1 = orientation_bdl_to_52016((k + d) as f32 * 0.25);
        let mut diff = a0 - a1 - d as f32 * 0.25; // all exact on the grid
        while diff < 0.0 { diff += 360.0; }
        while diff >= 360.0 { diff -= 360.0; }
        cover!(d == 360 && k == 1400, "wrap-around");
        assert!(diff == 0.0, "C03:turning the building by delta shifts every azimuth by -delta (mod 360)");
    }

    /// mirror_y of a space outline: y negated, first vertex kept, order reversed (1..4 vertices; the vertex
    /// count is concrete per call: Vec operations on symbolic lengths exhaust the solver)
    #[kani::unwind(7)]
    fn mirror_y_outline(s) {
        mirror_case(s, 1);
        mirror_case(s, 2);
        mirror_case(s, 3);
        mirror_case(s, 4);
    }
}

fn mirror_case<S: Src>(s: &mut S, n: usize) {
    let mut v: Vec<nalgebra::Point2<f32>> = Vec::new();
    let mut xs = [0.0f32; 4];
    let mut ys = [0.0f32; 4];
    let mut i = 0;
    while i < n {
        xs[i] = s.gi(-4, 4);
        ys[i] = s.gi(-4, 4);
        v.push(nalgebra::point![xs[i], ys[i]]);
        i += 1;
    }
    let p = hulc::bdl::Polygon(v);
    let m = p.mirror_y();
    cover!(n < 4 || ys[1] != ys[3], "quadrilateral with distinct vertices");
    assert!(m.0.len() == n, "C03:mirror keeps the number of vertices");
    assert!(m.0[0].x == xs[0] && m.0[0].y == -ys[0], "C03:mirror keeps the first vertex (y negated)");
    let mut i = 1;
    while i < n {
        assert!(m.0[i].x == xs[n - i] && m.0[i].y == -ys[n - i], "C03:mirror reverses the order and negates y");
        i += 1;
    }
    std::mem::forget((p, m));
}
