//! Stub bodies that are also compiled natively so that `replay --selftest` can validate them against the
//! real functions.

/// Exact rewrite of `f32::round` (half away from zero) that does not touch CBMC's rounding mode.
/// `x - trunc(x)` is exact for every finite f32, so the result is bit-identical to roundf
/// (validated over all 2^32 bit patterns by `replay --selftest`).
pub fn round_stub(x: f32) -> f32 {
    let t = x.trunc();
    let d = (x - t).abs();
    if d >= 0.5 {
        t + x.signum()
    } else {
        t
    }
}
