//! C10 — q_sol;jul: DB-HE solar-control formula (QSolJulData::from(&EnergyProps, &totradjul)).
use crate::common::*;
use crate::c08::props0;
use bemodel::energy::verif_hooks::*;

pub const ORI: [Orientation; 9] = [Orientation::N, Orientation::NE, Orientation::E, Orientation::SE, Orientation::S, Orientation::SW, Orientation::W, Orientation::NW, Orientation::HZ];

pub fn any_orientation<S: Src>(s: &mut S) -> (Orientation, usize) {
    let k = s.below(9) as usize;
    (ORI[k], k)
}

/// July table: one distinct concrete value per orientation class (the table's contents are an input of
/// the formula; distinct values make a lookup under the wrong orientation visible)
pub fn any_table<S: Src>(_s: &mut S) -> (HashMap<Orientation, f32>, [f32; 9]) {
    let mut m: HashMap<Orientation, f32> = HashMap::new();
    let h = [16.0f32, 24.0, 40.0, 48.0, 56.0, 72.0, 80.0, 88.0, 104.0];
    m.insert(ORI[0], h[0]);
    m.insert(ORI[1], h[1]);
    m.insert(ORI[2], h[2]);
    m.insert(ORI[3], h[3]);
    m.insert(ORI[4], h[4]);
    m.insert(ORI[5], h[5]);
    m.insert(ORI[6], h[6]);
    m.insert(ORI[7], h[7]);
    m.insert(ORI[8], h[8]);
    (m, h)
}

struct W {
    ori: usize,
    area: f32,
    mult: f32,
    tenv: bool,
    bounds: BoundaryType,
    cons_ok: bool,
    f: Option<f32>,
    fo: Option<f32>,
}

fn any_w<S: Src>(s: &mut S) -> (W, WinProps) {
    let (o, k) = any_orientation(s);
    let w = W {
        ori: k,
        area: s.g(3),
        mult: if s.bool() { 1.0 } else { 2.0 },
        tenv: s.bool(),
        bounds: any_bounds(s),
        cons_ok: s.bool(),
        f: if s.bool() { Some(s.g(2) * 0.5) } else { None },
        fo: if s.bool() { Some(s.g(2) * 0.5) } else { None },
    };
    let wp = WinProps {
        cons: if w.cons_ok { uid(300) } else { uid(301) },
        wall: uid(1),
        orientation: o,
        tilt: Tilt::SIDE,
        area: w.area,
        multiplier: w.mult,
        bounds: w.bounds,
        is_tenv: w.tenv,
        u_value: None,
        u_value_override: None,
        f_shobst: w.f,
        f_shobst_override: w.fo,
    };
    (w, wp)
}

fn scope(w: &W) -> bool {
    w.tenv && (w.bounds == BoundaryType::EXTERIOR || w.bounds == BoundaryType::GROUND)
}

/// Mirror oracle (same operation order as the statement's product F*g*(1-Ff)*A*H, full-range f32)
/// for membership, override precedence, defaults, multiplier, table lookup; totals and per-orientation
/// breakdown for up to 2 windows.
pub fn qsol_case<S: Src>(s: &mut S, n: usize) {
    let mut p = props0();
    let (table, h) = any_table(s);
    let g = s.g(4) * 0.25;
    let ff = s.g(3) * 0.25;
    p.wincons.insert(uid(300), WinConsProps { g_glwi: 0.875, g_glshwi: g, u_value: None, c_100: 9.0, f_f: ff });
    let a_ref = match s.below(3) { 0 => 1.0, 1 => 2.0, _ => 8.0 };
    p.global.a_ref = a_ref;
    let mut ws: Vec<W> = Vec::new();
    let mut i = 0;
    while i < n {
        let (w, wp) = any_w(s);
        p.windows.insert(uid(11 + i as u128), wp);
        ws.push(w);
        i += 1;
    }
    let d = QSolJulData::from(&p, &table);
    // reference, accumulated in id order like the statement's sums
    let mut q = 0.0f32;
    let mut awp = 0.0f32;
    let mut i = 0;
    let mut nscope = 0;
    let mut det_a = [0.0f32; 9];
    let mut det_g = [0.0f32; 9];
    while i < n {
        let w = &ws[i];
        if scope(w) {
            nscope += 1;
            let (gg, f_f) = if w.cons_ok { (g, ff) } else { (0.77, 0.20) };
            let f = match (w.fo, w.f) { (Some(x), _) => x, (None, Some(y)) => y, _ => 1.0 };
            let area = w.area * w.mult;
            let gains = f * gg * (1.0 - f_f) * area * h[w.ori];
            q += gains;
            awp += area;
            det_a[w.ori] += area;
            det_g[w.ori] += gains;
        }
        i += 1;
    }
    cover!(nscope == n && n > 0, "all windows in scope");
    cover!(nscope == 0, "no window in scope");
    assert!(d.Q_soljul == q, "C10:gains = sum F*g*(1-Ff)*A*H over envelope windows facing air or ground");
    assert!(d.q_soljul == q / a_ref, "C10:q_sol;jul = gains / A_ref");
    assert!(d.a_wp == awp, "C10:window area total (with multipliers)");
    let mut k = 0;
    let mut nd = 0;
    while k < 9 {
        match d.detail.get(&ORI[k]) {
            Some(det) => {
                nd += 1;
                assert!(det.a == det_a[k] && det.gains == det_g[k], "C10:per-orientation area and gains");
                assert!(det.irradiance == h[k], "C10:per-orientation irradiation is the table value");
            }
            None => assert!(det_a[k] == 0.0 && det_g[k] == 0.0, "C10:orientation without detail has no window"),
        }
        k += 1;
    }
    if n == 1 && nscope == 1 {
        let w = &ws[0];
        let det = d.detail.get(&ORI[w.ori]).unwrap();
        assert!(det.gains == d.Q_soljul && det.a == d.a_wp, "C10:breakdown adds up to totals");
        if w.area * w.mult > 0.0 {
            let (gg, f_f) = if w.cons_ok { (g, ff) } else { (0.77, 0.20) };
            let area = w.area * w.mult;
            assert!(d.f_f_mean == (f_f * area) / area && d.gglshwi_mean == (gg * area) / area, "C10:means are area-weighted");
            assert!(d.irradiance_mean == (h[w.ori] * area) / area, "C10:mean irradiation is area-weighted");
        }
    }
    std::mem::forget(p);
    std::mem::forget(ws);
    std::mem::forget(table);
}

fn finite_detail(d: &QSolJulData) -> bool {
    let mut ok = true;
    let mut k = 0;
    while k < 9 {
        if let Some(det) = d.detail.get(&ORI[k]) {
            ok = ok && det.a.is_finite() && det.gains.is_finite() && det.irradiance.is_finite() && det.f_f_mean.is_finite() && det.gglshwi_mean.is_finite() && det.fshobst_mean.is_finite();
        }
        k += 1;
    }
    ok
}

harnesses! {
    #[kani::unwind(4)]
    #[kani::stub(alloc::fmt::format, crate::stubs::fmt_stub)]
    fn qsol_1(s) { qsol_case(s, 1) }

    #[kani::unwind(4)]
    #[kani::stub(alloc::fmt::format, crate::stubs::fmt_stub)]
    fn qsol_2(s) { qsol_case(s, 2) }

    /// every reported figure is a finite number when no window is in scope (and with windows of positive area)
    #[kani::unwind(4)]
    #[kani::stub(alloc::fmt::format, crate::stubs::fmt_stub)]
    fn qsol_finite(s) {
        let mut p = props0();
        let (table, h) = any_table(s);
        p.wincons.insert(uid(300), WinConsProps { g_glwi: 0.875, g_glshwi: s.g(4) * 0.25, u_value: None, c_100: 9.0, f_f: s.g(3) * 0.25 });
        p.global.a_ref = match s.below(3) { 0 => 0.0, 1 => 2.0, _ => 8.0 };
        let has_win = s.bool();
        let mut inscope = false;
        let mut area = 0.0;
        if has_win {
            let (w, wp) = any_w(s);
            inscope = scope(&w);
            area = w.area * w.mult;
            p.windows.insert(uid(11), wp);
        }
        let d = QSolJulData::from(&p, &table);
        cover!(!has_win, "model without windows");
        cover!(has_win && !inscope, "window outside the envelope");
        cover!(has_win && inscope && area > 0.0, "window in scope");
        let sane = p.global.a_ref > 0.0 && (!inscope || area > 0.0);
        if !inscope || sane {
            assert!(d.q_soljul.is_finite(), "C10:q_sol;jul is finite");
            assert!(d.Q_soljul.is_finite() && d.a_wp.is_finite(), "C10:gains and area are finite");
            assert!(d.irradiance_mean.is_finite() && d.fshobst_mean.is_finite() && d.gglshwi_mean.is_finite() && d.f_f_mean.is_finite(), "C10:every reported mean is finite");
            assert!(finite_detail(&d), "C10:every per-orientation figure is finite");
        }
        std::mem::forget(p);
        std::mem::forget(table);
    }
}
