//! Value sources.  Every harness body is generic over `Src`:
//!  * under Kani the source is `KaniSrc` (every value is `kani::any()`, `assume` is `kani::assume`);
//!  * natively the source is `BytesSrc`, which replays the byte vectors that Kani's concrete
//!    playback printed for a counterexample (one vector per `kani::any()` call, in call order).
//! A counterexample is reported only if the same body, compiled WITHOUT cfg(kani) (std containers,
//! real `format!`, real libm), panics on the replayed values with every assumption satisfied.

pub trait Src {
    fn u8(&mut self) -> u8;
    fn i8(&mut self) -> i8;
    fn u16(&mut self) -> u16;
    fn u32(&mut self) -> u32;
    fn i32(&mut self) -> i32;
    fn f32(&mut self) -> f32;
    fn bool(&mut self) -> bool;
    fn assume(&mut self, c: bool);

    /// u8 in [0, n)
    fn below(&mut self, n: u8) -> u8 {
        let k = self.u8();
        self.assume(k < n);
        k
    }
    /// integer in [lo, hi]
    fn int(&mut self, lo: i8, hi: i8) -> i32 {
        let k = self.i8();
        self.assume(k >= lo && k <= hi);
        k as i32
    }
    /// small non-negative integer grid value as f32: 0..=max
    fn g(&mut self, max: u8) -> f32 {
        let k = self.u8();
        self.assume(k <= max);
        k as f32
    }
    /// integer grid value as f32 in [lo, hi]
    fn gi(&mut self, lo: i8, hi: i8) -> f32 {
        self.int(lo, hi) as f32
    }
    /// Option of a grid value
    fn og(&mut self, max: u8) -> Option<f32> {
        if self.bool() {
            Some(self.g(max))
        } else {
            None
        }
    }
    /// finite f32 in [lo, hi]
    fn fin(&mut self, lo: f32, hi: f32) -> f32 {
        let x = self.f32();
        self.assume(x >= lo && x <= hi);
        x
    }
    /// any finite f32
    fn finite(&mut self) -> f32 {
        let x = self.f32();
        self.assume(x.is_finite());
        x
    }
}

#[cfg(kani)]
pub struct KaniSrc;

#[cfg(kani)]
impl Src for KaniSrc {
    fn u8(&mut self) -> u8 {
        kani::any()
    }
    fn i8(&mut self) -> i8 {
        kani::any()
    }
    fn u16(&mut self) -> u16 {
        kani::any()
    }
    fn u32(&mut self) -> u32 {
        kani::any()
    }
    fn i32(&mut self) -> i32 {
        kani::any()
    }
    fn f32(&mut self) -> f32 {
        kani::any()
    }
    fn bool(&mut self) -> bool {
        kani::any()
    }
    fn assume(&mut self, c: bool) {
        kani::assume(c)
    }
}

/// Marker payload for a failed assumption during native replay.
pub struct AssumeFailed;

pub struct BytesSrc {
    pub vals: Vec<Vec<u8>>,
    pub pos: usize,
    pub underflow: usize,
}

impl BytesSrc {
    pub fn new(vals: Vec<Vec<u8>>) -> Self {
        Self { vals, pos: 0, underflow: 0 }
    }
    fn take<const N: usize>(&mut self) -> [u8; N] {
        let mut out = [0u8; N];
        if self.pos < self.vals.len() {
            let v = &self.vals[self.pos];
            for i in 0..N.min(v.len()) {
                out[i] = v[i];
            }
        } else {
            self.underflow += 1;
        }
        self.pos += 1;
        out
    }
}

impl Src for BytesSrc {
    fn u8(&mut self) -> u8 {
        self.take::<1>()[0]
    }
    fn i8(&mut self) -> i8 {
        self.take::<1>()[0] as i8
    }
    fn u16(&mut self) -> u16 {
        u16::from_le_bytes(self.take::<2>())
    }
    fn u32(&mut self) -> u32 {
        u32::from_le_bytes(self.take::<4>())
    }
    fn i32(&mut self) -> i32 {
        i32::from_le_bytes(self.take::<4>())
    }
    fn f32(&mut self) -> f32 {
        f32::from_le_bytes(self.take::<4>())
    }
    fn bool(&mut self) -> bool {
        self.take::<1>()[0] != 0
    }
    fn assume(&mut self, c: bool) {
        if !c {
            std::panic::panic_any(AssumeFailed);
        }
    }
}
