//! C13 — ray casting: accelerated = exhaustive; exact geometry.
use crate::common::*;
use bemodel::energy::{Bounded, Intersectable, Ray, AABB, BVH};
use bemodel::verif_hooks::HasSurface;

/// box with integer corners: min in [-lo..lo]^3, size 1..=2 per axis
pub fn box_grid<S: Src>(s: &mut S, r: i8) -> AABB {
    let x = s.gi(-r, r);
    let y = s.gi(-r, r);
    let z = s.gi(-r, r);
    let dx = s.gi(1, 2);
    let dy = s.gi(1, 2);
    let dz = s.gi(1, 2);
    AABB::new(point![x, y, z], point![x + dx, y + dy, z + dz])
}

/// direction component in {-1, -1/2, 0, 1/2, 1}
pub fn dirc<S: Src>(s: &mut S) -> f32 {
    match s.below(5) {
        0 => -1.0,
        1 => -0.5,
        2 => 0.0,
        3 => 0.5,
        _ => 1.0,
    }
}

pub fn grid_ray<S: Src>(s: &mut S, r: i8) -> Ray {
    let d = vector![dirc(s), dirc(s), dirc(s)];
    s.assume(d.x != 0.0 || d.y != 0.0 || d.z != 0.0);
    // Ray { .. } directly: Ray::new normalises (sqrt), the tree and the linear scan see the same ray either way
    Ray { origin: point![s.gi(-r, r), s.gi(-r, r), s.gi(-r, r)], dir: d }
}

fn leaf_case<S: Src>(s: &mut S, n: usize) {
    let mut v: Vec<AABB> = Vec::new();
    let mut i = 0;
    while i < n {
        v.push(box_grid(s, 4));
        i += 1;
    }
    let ray = grid_ray(s, 6);
    let mut lin = false;
    let mut i = 0;
    while i < n {
        lin = lin || v[i].intersects(&ray).is_some();
        i += 1;
    }
    let bvh = BVH::build(v, 30);
    let acc = bvh.intersects(&ray).is_some();
    cover!(n == 0 || lin, "some box is hit");
    cover!(!lin, "no box is hit");
    assert!(acc == lin, "C13:accelerated answer equals one-by-one answer");
    std::mem::forget(bvh);
}

harnesses! {
    /// BVH over the empty obstacle set: builds, and no ray is blocked
    #[kani::unwind(4)]
    fn bvh_leaf0(s) { leaf_case(s, 0) }

    /// BVH over one box (single leaf) == the box itself
    #[kani::unwind(4)]
    fn bvh_leaf1(s) { leaf_case(s, 1) }

    /// BVH over two boxes (single leaf) == testing both
    #[kani::unwind(5)]
    fn bvh_leaf2(s) { leaf_case(s, 2) }
}

pub mod geo {
use super::*;
// ---------------------------------------------------------------- exact geometry lemmas

/// doubled direction component as integer in {-2,-1,0,1,2}
fn d2<S: Src>(s: &mut S) -> i32 { s.int(-2, 2) }

harnesses! {
    /// AABB::intersects == exact rational slab test (integer cross-multiplication)
    fn aabb_slab(s) {
        let (lx, ly, lz) = (s.int(-4, 4), s.int(-4, 4), s.int(-4, 4));
        let (hx, hy, hz) = (lx + s.int(1, 3), ly + s.int(1, 3), lz + s.int(1, 3));
        let (ox, oy, oz) = (s.int(-6, 6), s.int(-6, 6), s.int(-6, 6));
        let (dx, dy, dz) = (d2(s), d2(s), d2(s));
        s.assume(dx != 0 || dy != 0 || dz != 0);
        // a zero direction component with the origin exactly on that slab's face gives 0*inf = NaN in the
        // implementation; the statement says nothing about it: excluded
        s.assume(dx != 0 || (ox != lx && ox != hx));
        s.assume(dy != 0 || (oy != ly && oy != hy));
        s.assume(dz != 0 || (oz != lz && oz != hz));
        let b = AABB::new(point![lx as f32, ly as f32, lz as f32], point![hx as f32, hy as f32, hz as f32]);
        let ray = Ray { origin: point![ox as f32, oy as f32, oz as f32], dir: vector![dx as f32 * 0.5, dy as f32 * 0.5, dz as f32 * 0.5] };
        let got = b.intersects(&ray).is_some();
        // exact: U = 2u where point = o + u*d (d doubled direction); per axis interval of U, all integers
        let mut ulo = i32::MIN;
        let mut uhi = i32::MAX;
        let mut inside_static = true;
        let axes = [(lx, hx, ox, dx), (ly, hy, oy, dy), (lz, hz, oz, dz)];
        let mut k = 0;
        while k < 3 {
            let (lo, hi, o, d) = axes[k];
            if d == 0 {
                if !(o > lo && o < hi) { inside_static = false; }
            } else {
                // U = 2*(x - o)/d  for x = lo, hi ; d in {+-1, +-2} divides 2*(x-o) exactly
                let a = 2 * (lo - o) / d;
                let c = 2 * (hi - o) / d;
                let (a, c) = if a <= c { (a, c) } else { (c, a) };
                if a > ulo { ulo = a; }
                if c < uhi { uhi = c; }
            }
            k += 1;
        }
        let want = inside_static && ulo <= uhi && uhi >= 0;
        cover!(want && dx == 0, "hit with a zero direction component");
        cover!(!want && inside_static && ulo <= uhi, "box entirely behind the origin");
        cover!(want && ulo == uhi, "grazing a corner or edge");
        assert!(got == want, "C13:box hit == exact slab test");
    }

    /// pruning soundness: a ray that hits box A also hits A.join(B) and [A,B].aabb()
    #[kani::unwind(4)]
    fn aabb_join_monotone(s) {
        let a = box_grid(s, 4);
        let b = box_grid(s, 4);
        let ray = grid_ray(s, 6);
        let ha = a.intersects(&ray).is_some();
        let j = a.join(b);
        let hj = j.intersects(&ray).is_some();
        let v = vec![a, b];
        let hv = v.aabb().intersects(&ray).is_some();
        cover!(ha && !b.intersects(&ray).is_some(), "A hit, B missed");
        assert!(!ha || hj, "C13:box hit implies joined box hit");
        assert!(!ha || hv, "C13:box hit implies slice bounding box hit");
        std::mem::forget(v);
    }

    /// AABB::join and <[T] as Bounded>::aabb: contains every corner and is the least such box (any finite f32)
    #[kani::unwind(5)]
    fn aabb_join_bounds(s) {
        let mut v: Vec<AABB> = Vec::new();
        let n = s.below(4) as usize;
        let mut i = 0;
        while i < n {
            let (x0, y0, z0) = (s.finite(), s.finite(), s.finite());
            let (x1, y1, z1) = (s.finite(), s.finite(), s.finite());
            s.assume(x0 <= x1 && y0 <= y1 && z0 <= z1);
            v.push(AABB::new(point![x0, y0, z0], point![x1, y1, z1]));
            i += 1;
        }
        let bb = v.aabb();
        let mut i = 0;
        let (mut tx, mut ty, mut tz, mut ux, mut uy, mut uz) = (false, false, false, false, false, false);
        while i < n {
            let e = v[i];
            assert!(bb.min.x <= e.min.x && bb.min.y <= e.min.y && bb.min.z <= e.min.z, "C13:bounding box contains every min corner");
            assert!(bb.max.x >= e.max.x && bb.max.y >= e.max.y && bb.max.z >= e.max.z, "C13:bounding box contains every max corner");
            tx = tx || bb.min.x == e.min.x; ty = ty || bb.min.y == e.min.y; tz = tz || bb.min.z == e.min.z;
            ux = ux || bb.max.x == e.max.x; uy = uy || bb.max.y == e.max.y; uz = uz || bb.max.z == e.max.z;
            i += 1;
        }
        cover!(n == 3, "three boxes");
        if n > 0 {
            assert!(tx && ty && tz && ux && uy && uz, "C13:bounding box is tight (least box)");
        }
        if n == 2 {
            let j = v[0].join(v[1]);
            assert!(j == bb, "C13:join == slice bounding box");
        }
        std::mem::forget(v);
    }

    /// point-in-polygon through Ray::intersects_with_data (identity pose) == exact integer test, triangles
    #[kani::unwind(10)]
    fn pip_exact_tri(s) {
        use nalgebra::IsometryMatrix3;
        let (ax, ay, bx, by, cx, cy) = (s.int(-4, 4), s.int(-4, 4), s.int(-4, 4), s.int(-4, 4), s.int(-4, 4), s.int(-4, 4));
        let area2 = (bx - ax) * (cy - ay) - (by - ay) * (cx - ax);
        s.assume(area2 != 0);
        // point at half-integers: never on a vertex or a grid line
        let (px2, py2) = (s.int(-4, 4) * 2 + 1, s.int(-4, 4) * 2 + 1);
        let poly = vec![point![ax as f32, ay as f32], point![bx as f32, by as f32], point![cx as f32, cy as f32]];
        let ray = Ray { origin: point![px2 as f32 * 0.5, py2 as f32 * 0.5, 1.0], dir: vector![0.0, 0.0, -1.0] };
        let id = IsometryMatrix3::<f32>::identity();
        let hit = ray.intersects_with_data(&poly, Some(&id), &vector![0.0, 0.0, 1.0]).is_some();
        let cr = |x1: i32, y1: i32, x2: i32, y2: i32| -> i32 { (2 * x2 - 2 * x1) * (py2 - 2 * y1) - (2 * y2 - 2 * y1) * (px2 - 2 * x1) };
        let (d1, d2, d3) = (cr(ax, ay, bx, by), cr(bx, by, cx, cy), cr(cx, cy, ax, ay));
        // crossing points on the outline are outside the statement
        s.assume(d1 != 0 && d2 != 0 && d3 != 0);
        let inside = (d1 > 0 && d2 > 0 && d3 > 0) || (d1 < 0 && d2 < 0 && d3 < 0);
        cover!(inside && area2 < 0, "inside a clockwise triangle");
        cover!(!inside, "outside");
        assert!(hit == inside, "C13:ray hits polygon iff crossing point strictly inside (exact)");
        std::mem::forget(poly);
    }

    /// <WallGeom as Bounded>::aabb (pose: translation only, tilt 0 / azimuth 0): contains every corner and is tight
    #[kani::unwind(10)]
    fn wallgeom_aabb(s) {
        let (tx, ty, tz) = (s.gi(-3, 3), s.gi(-3, 3), s.gi(-3, 3));
        let mut xs = [0.0f32; 4];
        let mut ys = [0.0f32; 4];
        let mut poly: Vec<Point2> = Vec::new();
        let mut i = 0;
        while i < 4 {
            xs[i] = s.gi(-4, 4);
            ys[i] = s.gi(-4, 4);
            poly.push(point![xs[i], ys[i]]);
            i += 1;
        }
        let g = WallGeom { tilt: 0.0, azimuth: 0.0, position: Some(point![tx, ty, tz]), polygon: poly };
        let b = g.aabb();
        let (mut tlx, mut thx, mut tly, mut thy) = (false, false, false, false);
        let mut i = 0;
        while i < 4 {
            let (gx, gy) = (xs[i] + tx, ys[i] + ty);
            assert!(b.min.x <= gx && gx <= b.max.x && b.min.y <= gy && gy <= b.max.y && b.min.z <= tz && tz <= b.max.z, "C13:the bounding box of a polygon contains all its corners");
            tlx = tlx || b.min.x == gx; thx = thx || b.max.x == gx; tly = tly || b.min.y == gy; thy = thy || b.max.y == gy;
            i += 1;
        }
        cover!(xs[0] > xs[1] && xs[1] > xs[2] && xs[2] > xs[3], "first vertex is the strict maximum, later ones decrease");
        assert!(tlx && thx && tly && thy && b.min.z == tz && b.max.z == tz, "C13:the bounding box of a polygon is tight");
        std::mem::forget(g);
    }

    /// ray/plane: hit iff the plane is crossed in front of the origin at a point inside the rectangle;
    /// polygon pose = pure translation, normal +z or -z (vertex order), exact integer reference
    #[kani::unwind(10)]
    fn ray_plane(s) {
        use nalgebra::{IsometryMatrix3, Translation3, Rotation3};
        let (w, h) = (s.int(1, 4), s.int(1, 4));
        let (tx, ty, tz) = (s.int(-3, 3), s.int(-3, 3), s.int(-3, 3));
        let flip = s.bool();
        let (ox, oy, oz) = (s.int(-6, 6), s.int(-6, 6), s.int(-6, 6));
        let (dx, dy) = (s.int(-2, 2), s.int(-2, 2));
        let dz = match s.below(5) { 0 => -2, 1 => -1, 2 => 1, 3 => 2, _ => 0 };
        let poly: Vec<Point2> = if flip {
            vec![point![0.0, 0.0], point![0.0, h as f32], point![w as f32, h as f32], point![w as f32, 0.0]]
        } else {
            vec![point![0.0, 0.0], point![w as f32, 0.0], point![w as f32, h as f32], point![0.0, h as f32]]
        };
        let n = poly.normal();
        assert!(n.z == if flip { -1.0 } else { 1.0 }, "C13:polygon normal follows vertex order");
        // global -> polygon coordinates: inverse of the translation that places the polygon
        let g2p = IsometryMatrix3::from_parts(Translation3::new(-(tx as f32), -(ty as f32), -(tz as f32)), Rotation3::identity());
        let ray = Ray { origin: point![ox as f32, oy as f32, oz as f32], dir: vector![dx as f32, dy as f32, dz as f32] };
        let got = ray.intersects_with_data(&poly, Some(&g2p), &n).is_some();
        // exact: t = (tz - oz)/dz ; crossing point (ox + t dx - tx, oy + t dy - ty) in polygon coordinates
        let want = if dz == 0 {
            false
        } else {
            let num = tz - oz; // t = num/dz
            // t > 0  <=> num*dz > 0 ; t == 0 (origin in the plane) is outside the statement
            s.assume(num != 0);
            let front = num * dz > 0;
            // X = (ox - tx)*dz + num*dx  compared with 0 and w*dz (sign of dz matters)
            let x = (ox - tx) * dz + num * dx;
            let y = (oy - ty) * dz + num * dy;
            let (x, y, dzp) = if dz > 0 { (x, y, dz) } else { (-x, -y, -dz) };
            s.assume(x != 0 && x != w * dzp && y != 0 && y != h * dzp); // not on the outline
            front && x > 0 && x < w * dzp && y > 0 && y < h * dzp
        };
        cover!(want && flip, "hit on a polygon with -z normal");
        cover!(dz != 0 && !want, "miss");
        assert!(got == want, "C13:ray hits rectangle iff plane crossed in front at an inside point (exact)");
        std::mem::forget(poly);
    }
}

}
