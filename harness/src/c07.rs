//! C07 — window U-value and solar factors.
use crate::common::*;
use bemodel::utils::fround2;

fn db<S: Src>(s: &mut S, ug: f32, gn: f32, uf: f32) -> (ConsDb, bool, bool) {
    let mut db = ConsDb::default();
    let has_glass = s.bool();
    let has_frame = s.bool();
    // a decoy of each kind comes first so that lookups by id (not by position) are required
    db.glasses.push(Glass { id: uid(90), name: String::new(), u_value: 9.5, g_gln: 0.125 });
    db.frames.push(Frame { id: uid(91), name: String::new(), u_value: 8.25, absorptivity: 0.5 });
    if has_glass {
        db.glasses.push(Glass { id: uid(1), name: String::new(), u_value: ug, g_gln: gn });
    }
    if has_frame {
        db.frames.push(Frame { id: uid(2), name: String::new(), u_value: uf, absorptivity: 0.5 });
    }
    (db, has_glass, has_frame)
}

harnesses! {
    /// U_w = fround2((1 + dU/100) * (Ff*Uf + (1-Ff)*Ug)); g_gl;wi = fround2(0.90 * g_n)  (grid, mirror oracle)
    #[kani::unwind(4)]
    #[kani::stub(alloc::fmt::format, crate::stubs::fmt_stub)]
    #[kani::stub(f32::round, crate::stubs::round_stub)]
    fn win_u_formula(s) {
        let (ug, uf, gn) = (s.g(23) * 0.25, s.g(23) * 0.25, s.g(8) * 0.125);
        let ff = s.g(8) * 0.125;
        let du = match s.below(4) { 0 => 0.0, 1 => 10.0, 2 => 25.0, _ => 50.0 };
        let mut db = ConsDb::default();
        db.glasses.push(Glass { id: uid(1), name: String::new(), u_value: ug, g_gln: gn });
        db.frames.push(Frame { id: uid(2), name: String::new(), u_value: uf, absorptivity: 0.5 });
        let wc = WinCons { id: uid(5), name: String::new(), glass: uid(1), frame: uid(2), f_f: ff, delta_u: du, g_glshwi: None, c_100: 27.0 };
        cover!(du == 10.0 && ff == 0.25 && ug != uf, "non-trivial mix");
        assert!(wc.u_value(&db) == Some(fround2((1.0 + du / 100.0) * (uf * ff + ug * (1.0 - ff)))), "C07:U = (1+dU/100)*(Ff*Uf + (1-Ff)*Ug) to two decimals");
        assert!(wc.g_glwi(&db) == Some(fround2(gn * 0.90)), "C07:g_gl;wi = 0.90 * g_gl;n");
        assert!(wc.g_glshwi(&db) == wc.g_glwi(&db), "C07:shaded factor is the unshaded factor when no user value is given");
        std::mem::forget(db);
        std::mem::forget(wc);
    }

    /// lookups by id (decoys first), missing glazing / frame, user shading factor (concrete numbers, symbolic presence)
    #[kani::unwind(4)]
    #[kani::stub(alloc::fmt::format, crate::stubs::fmt_stub)]
    #[kani::stub(f32::round, crate::stubs::round_stub)]
    fn win_lookup(s) {
        let (db, hg, hf) = db(s, 2.0, 0.5, 4.0);
        let user = if s.bool() { Some(0.375) } else { None };
        let wc = WinCons { id: uid(5), name: String::new(), glass: uid(1), frame: uid(2), f_f: 0.25, delta_u: 0.0, g_glshwi: user, c_100: 27.0 };
        let u = wc.u_value(&db);
        let g = wc.g_glwi(&db);
        let gs = wc.g_glshwi(&db);
        cover!(hg && hf, "glazing and frame resolve");
        cover!(!hg && user.is_some(), "user shading factor with a missing glazing");
        if hg && hf {
            assert!(u == Some(fround2((1.0 + 0.0 / 100.0) * (4.0 * 0.25 + 2.0 * (1.0 - 0.25)))), "C07:U uses the glazing and frame found by id");
        } else {
            assert!(u.is_none(), "C07:no U-value when glazing or frame is missing");
        }
        if hg {
            assert!(g == Some(fround2(0.5 * 0.90)), "C07:g_gl;wi uses the glazing found by id");
        } else {
            assert!(g.is_none(), "C07:no solar factor without glazing");
        }
        match user {
            Some(x) => assert!(gs == Some(fround2(x)), "C07:shaded factor is the user value when given"),
            None => assert!(gs == g, "C07:shaded factor is the unshaded factor otherwise"),
        }
        std::mem::forget(db);
        std::mem::forget(wc);
    }

    /// U_w lies between glazing and frame values scaled by (1+dU/100) (dyadic grid, exact arithmetic)
    #[kani::unwind(4)]
    #[kani::stub(alloc::fmt::format, crate::stubs::fmt_stub)]
    #[kani::stub(f32::round, crate::stubs::round_stub)]
    fn win_u_bounds(s) {
        let ug = s.g(12) * 0.5;
        let uf = s.g(12) * 0.5;
        let ff = s.g(4) * 0.25;
        let du = match s.below(3) { 0 => 0.0, 1 => 25.0, _ => 50.0 };
        let mut db = ConsDb::default();
        db.glasses.push(Glass { id: uid(1), name: String::new(), u_value: ug, g_gln: 0.75 });
        db.frames.push(Frame { id: uid(2), name: String::new(), u_value: uf, absorptivity: 0.5 });
        let wc = WinCons { id: uid(5), name: String::new(), glass: uid(1), frame: uid(2), f_f: ff, delta_u: du, g_glshwi: None, c_100: 27.0 };
        let u = wc.u_value(&db).unwrap();
        let k = 1.0 + du / 100.0; // 1, 1.25, 1.5 exact
        let (lo, hi) = if ug <= uf { (ug, uf) } else { (uf, ug) };
        cover!(ff == 0.5 && ug != uf && du == 25.0, "mixed case");
        assert!(u >= k * lo - 0.005 && u <= k * hi + 0.005, "C07:U between scaled glazing and frame values");
        if ff == 0.0 { assert!(u >= k * ug - 0.005 && u <= k * ug + 0.005, "C07:Ff = 0 gives the glazing value"); }
        if ff == 1.0 { assert!(u >= k * uf - 0.005 && u <= k * uf + 0.005, "C07:Ff = 1 gives the frame value"); }
        std::mem::forget(db);
        std::mem::forget(wc);
    }
}
