//! C19 (partial) — typed-value kernels that a damaged project file can feed with arbitrary values:
//! they must not crash.  Everything between bytes and typed values (the text layer) is outside.
use crate::common::*;
use bemodel::convert::verif_hooks::day_of_year;

harnesses! {
    /// Polygon::edge_vertices / edge_length for a vertex name "V<digit>" and an outline of 0..4 vertices
    #[kani::unwind(7)]
    #[kani::stub(alloc::fmt::format, crate::stubs::fmt_stub)]
    fn edge_vertices_total(s) {
        let d = s.u8();
        s.assume(d >= b'0' && d <= b'9');
        let bytes = [b'V', d];
        let name = std::str::from_utf8(&bytes).unwrap();
        let n = s.below(5) as usize;
        let mut v: Vec<nalgebra::Point2<f32>> = Vec::new();
        let mut i = 0;
        while i < n { v.push(nalgebra::point![i as f32, 0.0]); i += 1; }
        let poly = hulc::bdl::Polygon(v);
        let r = poly.edge_vertices(name).is_some();
        let k = (d - b'0') as usize;
        cover!(k >= 1 && k <= n, "vertex inside the outline");
        cover!(k == 0, "V0");
        cover!(k > n, "vertex beyond the outline");
        assert!(r == (k >= 1 && k <= n) || !r, "C19:edge lookup returns instead of crashing");
        std::mem::forget(poly);
    }

    /// outline operations on 0..3 vertices (count concrete per call)
    #[kani::unwind(6)]
    fn polygon_ops_total(s) {
        polyops_case(s, 0);
        polyops_case(s, 1);
        polyops_case(s, 2);
        polyops_case(s, 3);
    }

    /// calendar arithmetic on out-of-range dates (a corrupted schedule): day_of_year and nday_from_md return
    fn dates_total(s) {
        let (d, m) = (s.u32(), s.u32());
        s.assume(d <= 99 && m <= 99);
        let n = day_of_year(d, m);
        cover!(m == 0, "month 0");
        cover!(m == 13 && d == 32, "month 13");
        assert!(n <= 4000, "C19:day number of an out-of-range date is a bounded number");
    }

    /// tilt classification of any f32 (NaN, infinities included) returns a class
    fn tilt_any_total(s) {
        let t = s.f32();
        let w = hulc::bdl::Wall { tilt: t, ..Default::default() };
        let p = w.position();
        let c = Tilt::from(t);
        cover!(t.is_nan(), "NaN tilt");
        cover!(t.is_infinite(), "infinite tilt");
        assert!(matches!(c, Tilt::TOP | Tilt::SIDE | Tilt::BOTTOM) && matches!(p, hulc::bdl::Tilt::TOP | hulc::bdl::Tilt::SIDE | hulc::bdl::Tilt::BOTTOM), "C19:every tilt value is classified");
        std::mem::forget(w);
    }
}

fn polyops_case<S: Src>(s: &mut S, n: usize) {
    let mut v: Vec<nalgebra::Point2<f32>> = Vec::new();
    let mut i = 0;
    while i < n { v.push(nalgebra::point![s.gi(-2, 2), s.gi(-2, 2)]); i += 1; }
    let poly = hulc::bdl::Polygon(v);
    let a = poly.area();
    let m = poly.mirror_y();
    assert!(a >= 0.0, "C19:area of a degenerate outline is a number");
    assert!(m.0.len() == n, "C19:mirror of a degenerate outline returns");
    std::mem::forget((poly, m));
}
