//! C11 (continued) — areas, volumes, envelope membership, ventilation-rate consistency through the real
//! EnergyProps::from(&Model) (container models under cfg(kani), compute_fshobst stubbed).
use crate::common::*;
use crate::c06::{rect, space, wall};
use bemodel::energy::EnergyProps;
use bemodel::utils::fround2;
use bemodel::verif_hooks::HasSurface;

harnesses! {
    /// Polygon::area vs shoelace in integers; exact power-of-two scaling (triangles)
    #[kani::unwind(7)]
    fn polygon_area_3(s) { poly_case(s, 3) }
    /// quadrilaterals
    #[kani::unwind(7)]
    fn polygon_area_4(s) { poly_case_k(s, 4, Some(2.0)) }
    /// pentagons
    #[kani::unwind(8)]
    fn polygon_area_5(s) { poly_case_k(s, 5, Some(0.5)) }

    /// Space::area, Space::height_net, Wall::area_net on a small wall set
    #[kani::unwind(6)]
    #[kani::stub(alloc::fmt::format, crate::stubs::fmt_stub)]
    #[kani::stub(f32::round, crate::stubs::round_stub)]
    fn space_area_height(s) {
        let mut m = Model::default();
        m.cons.wallcons.push(WallCons { id: uid(3), name: String::new(), layers: vec![Layer { material: uid(1), e: 0.25 }], absorptance: 0.6 });
        m.cons.wallcons.push(WallCons { id: uid(4), name: String::new(), layers: vec![Layer { material: uid(1), e: 0.5 }], absorptance: 0.6 });
        let h = 2.0 + s.g(2);
        m.spaces.push(space(1, SpaceType::CONDITIONED, true, h, 0.0, None));
        let (a1, a2) = (1.0 + s.g(3), 1.0 + s.g(3));
        // two floors of the space, one floor of another space, and a ceiling given from either side
        let own2 = s.bool();
        m.walls.push(wall(10, BoundaryType::GROUND, 3, 1, None, 180.0, rect(a1, 2.0)));
        m.walls.push(wall(11, BoundaryType::GROUND, 3, if own2 { 1 } else { 2 }, None, 180.0, rect(a2, 1.0)));
        let top_kind = s.below(3); // 0: own roof (tilt 0), 1: floor of the space above next to this one, 2: none
        match top_kind {
            0 => m.walls.push(wall(12, BoundaryType::EXTERIOR, 3, 1, None, 0.0, rect(2.0, 2.0))),
            1 => m.walls.push(wall(12, BoundaryType::INTERIOR, 4, 2, Some(uid(1)), 180.0, rect(2.0, 2.0))),
            _ => m.walls.push(wall(12, BoundaryType::EXTERIOR, 4, 2, None, 0.0, rect(2.0, 2.0))),
        }
        let sp = &m.spaces[0];
        let area = sp.area(&m.walls);
        let hn = sp.height_net(&m.walls, &m.cons);
        let want_a = (0.0 + a1 * 2.0) + if own2 { a2 * 1.0 } else { 0.0 };
        cover!(own2 && top_kind == 1, "two floors, ceiling given from the other side");
        assert!(area == want_a, "C11:space area is the floor area of its own floors");
        let thick = match top_kind { 0 => 0.25, 1 => 0.5, _ => 0.0 };
        assert!(hn == h - thick, "C11:net height = gross height minus the first top element's thickness (given from either side)");
        // net wall area: gross minus its windows, two decimals
        let nw = s.below(3) as usize;
        let mut i = 0;
        while i < nw {
            m.windows.push(Window { id: uid(40 + i as u128), name: String::new(), cons: uid(0), wall: if s.bool() { uid(10) } else { uid(11) }, geometry: WinGeom { position: None, height: 0.5, width: 1.0 + i as f32, setback: 0.0 } });
            i += 1;
        }
        let mut wa = 0.0f32;
        let mut i = 0;
        while i < nw {
            if m.windows[i].wall == uid(10) { wa += (1.0 + i as f32) * 0.5; }
            i += 1;
        }
        assert!(m.walls[0].area_net(&m.windows) == fround2(a1 * 2.0 - wa), "C11:net opaque area = gross area minus the wall's window areas");
        std::mem::forget(m);
    }

    /// reference area, volumes, compactness, Co from EnergyProps::from(&Model): one space and its floor
    #[kani::unwind(6)]
    #[kani::stub(alloc::fmt::format, crate::stubs::fmt_stub)]
    #[kani::stub(f32::round, crate::stubs::round_stub)]
    #[kani::stub(bemodel::Model::compute_fshobst, crate::stubs::fshobst_stub)]
    fn props_global(s) {
        let mut m = Model::default();
        let in1 = s.bool();
        let k1 = any_kind(s);
        let mult = if s.bool() { 1.0 } else { 2.0 };
        let h1 = 2.0 + s.g(2);
        m.spaces.push(space(1, k1, in1, h1, 0.0, None));
        m.spaces[0].multiplier = mult;
        let side = 1.0 + s.g(3);
        let bf = any_bounds(s);
        m.walls.push(wall(10, bf, 9, 1, None, 180.0, rect(side, side)));
        m.meta.is_new_building = s.bool();
        let p = EnergyProps::from(&m);
        let area = side * side;
        let hab1 = k1 != SpaceType::UNINHABITED;
        cover!(in1 && hab1 && mult == 2.0, "inside habitable space with multiplier");
        cover!(in1 && !hab1, "uninhabited space inside the envelope");
        assert!(p.global.a_ref == fround2(0.0 + if in1 && hab1 { area * mult } else { 0.0 }), "C11:reference area = floor area of habitable spaces inside the envelope (with multipliers)");
        assert!(p.global.vol_env_gross == fround2(0.0 + if in1 { area * h1 * mult } else { 0.0 }), "C11:gross volume = floor area x gross height of spaces inside the envelope");
        assert!(p.global.vol_env_net == fround2(0.0 + if in1 { area * h1 * mult } else { 0.0 }), "C11:net volume = floor area x net height (no ceiling element here)");
        assert!(p.global.c_o_100 == if m.meta.is_new_building { 16.0 } else { 29.0 }, "C09:Co = 16 for new, 29 for existing buildings");
        let wf = p.walls.get(&uid(10)).unwrap();
        assert!(wf.is_tenv == in1, "C11:an element towards air, ground or an adiabatic boundary belongs to the envelope iff its space is inside");
        assert!(wf.multiplier == mult, "C11:elements carry their space's multiplier");
        let exp_f = in1 && (bf == BoundaryType::EXTERIOR || bf == BoundaryType::GROUND);
        if exp_f {
            assert!(p.global.compactness == p.global.vol_env_gross / (0.0 + area * mult), "C11:compactness = gross volume / envelope area exposed to air or ground");
        } else {
            assert!(p.global.compactness == 0.0, "C11:compactness 0 without exposed area");
        }
        std::mem::forget(m);
        std::mem::forget(p);
    }

    /// envelope membership of a wall between two spaces (the rule of the statement)
    #[kani::unwind(6)]
    #[kani::stub(alloc::fmt::format, crate::stubs::fmt_stub)]
    #[kani::stub(f32::round, crate::stubs::round_stub)]
    #[kani::stub(bemodel::Model::compute_fshobst, crate::stubs::fshobst_stub)]
    fn props_membership(s) {
        let mut m = Model::default();
        let (in1, in2) = (s.bool(), s.bool());
        m.spaces.push(space(1, SpaceType::CONDITIONED, in1, 3.0, 0.0, None));
        m.spaces.push(space(2, SpaceType::CONDITIONED, in2, 3.0, 0.0, None));
        // the other boundary kinds are decided in props_global; here the partition rule
        let bw = if s.bool() { BoundaryType::INTERIOR } else { BoundaryType::ADIABATIC };
        let nxt = s.below(3);
        m.walls.push(wall(11, bw, 9, 1, match nxt { 0 => None, 1 => Some(uid(2)), _ => Some(uid(7)) }, 90.0, Vec::new()));
        let p = EnergyProps::from(&m);
        let next_inside = nxt == 1 && in2;
        let want = match bw { BoundaryType::INTERIOR => in1 != next_inside, _ => in1 };
        cover!(!in1 && in2 && nxt == 1 && bw == BoundaryType::INTERIOR, "partition declared from the outside space");
        cover!(in1 && !in2 && nxt == 1 && bw == BoundaryType::INTERIOR, "partition declared from the inside space");
        assert!(p.walls.get(&uid(11)).unwrap().is_tenv == want, "C11:an element belongs to the envelope exactly when it bounds an inside space towards air/ground/adiabatic or separates an inside from an outside space");
        std::mem::forget(m);
        std::mem::forget(p);
    }

    /// the building ventilation rate reported with the indicators is the one used inside the U-value calculation
    #[kani::unwind(6)]
    #[kani::stub(alloc::fmt::format, crate::stubs::fmt_stub)]
    #[kani::stub(f32::round, crate::stubs::round_stub)]
    #[kani::stub(bemodel::Model::compute_fshobst, crate::stubs::fshobst_stub)]
    fn ventilation_consistency(s) {
        let mut m = Model::default();
        let in1 = s.bool();
        let k1 = any_kind(s);
        m.spaces.push(space(1, k1, in1, 3.0, 0.0, None));
        let side = 1.0 + s.g(3);
        m.walls.push(wall(10, BoundaryType::GROUND, 9, 1, None, 180.0, rect(side, side)));
        m.meta.global_ventilation_l_s = Some(10.0 + s.g(3));
        let p = EnergyProps::from(&m);
        let used_in_u = m.global_ventilation_rate();
        cover!(in1 && k1 == SpaceType::CONDITIONED, "habitable space inside the envelope");
        cover!(!in1 && k1 == SpaceType::UNCONDITIONED, "habitable space outside the envelope only");
        // with no habitable volume inside the envelope both rates are q/0 (sign of the zero differs between an
        // empty and a zero-valued f32 sum): the rate is undefined there, outside the statement
        if in1 && k1 != SpaceType::UNINHABITED {
            assert!(p.global.global_ventilation_rate == used_in_u, "C11:reported building ventilation rate is the one used inside the U-value calculation");
            assert!(used_in_u.is_finite(), "C14:ventilation rate of a building with habitable volume is finite");
        } else {
            assert!(!p.global.global_ventilation_rate.is_finite() && !used_in_u.is_finite(), "C11:both rates are undefined without habitable volume inside the envelope");
        }
        std::mem::forget(m);
        std::mem::forget(p);
    }
}

fn poly_case<S: Src>(s: &mut S, n: usize) { poly_case_k(s, n, None) }
fn poly_case_k<S: Src>(s: &mut S, n: usize, kfix: Option<f32>) {
    let mut xs = [0i32; 5];
    let mut ys = [0i32; 5];
    let mut poly: Vec<Point2> = Vec::new();
    let mut poly2: Vec<Point2> = Vec::new();
    let k = match kfix { Some(k) => k, None => match s.below(4) { 0 => 0.25f32, 1 => 0.5, 2 => 2.0, _ => 4.0 } };
    let mut i = 0;
    while i < n {
        xs[i] = s.int(-4, 4);
        ys[i] = s.int(-4, 4);
        poly.push(point![xs[i] as f32, ys[i] as f32]);
        poly2.push(point![xs[i] as f32 * k, ys[i] as f32 * k]);
        i += 1;
    }
    let mut twice = 0i32;
    let mut i = 0;
    while i < n {
        let j = (i + 1) % n;
        twice += xs[i] * ys[j] - ys[i] * xs[j];
        i += 1;
    }
    let a = poly.area();
    cover!(twice < 0, "clockwise polygon");
    assert!(a == (if twice < 0 { -twice } else { twice }) as f32 * 0.5, "C11:polygon area equals the shoelace area");
    assert!(poly2.area() == a * k * k, "C11:scaling lengths by s scales areas by s^2");
    let empty: Vec<Point2> = Vec::new();
    assert!(empty.area() == 0.0 && empty.perimeter() == 0.0, "C11:degenerate polygons have no area");
    std::mem::forget((poly, poly2, empty));
}
