//! C08 — K: area-weighted mean transmittance of the thermal envelope (KData::from(&EnergyProps)).
use crate::common::*;
use bemodel::energy::verif_hooks::*;

pub fn props0() -> EnergyProps {
    EnergyProps {
        global: GlobalProps {
            a_ref: 0.0,
            vol_env_gross: 0.0,
            vol_env_net: 0.0,
            vol_env_inh_net: 0.0,
            compactness: 0.0,
            global_ventilation_rate: 0.0,
            n_50_test_ach: None,
            c_o_100: 16.0,
            occ_spaces_hours_in_use: 0,
            occ_spaces_average_load: 0.0,
        },
        spaces: BTreeMap::new(),
        walls: BTreeMap::new(),
        windows: BTreeMap::new(),
        thermal_bridges: BTreeMap::new(),
        shades: BTreeMap::new(),
        wallcons: BTreeMap::new(),
        wincons: BTreeMap::new(),
        sch_year: BTreeMap::new(),
        sch_week: BTreeMap::new(),
        sch_day: BTreeMap::new(),
        loads: BTreeMap::new(),
    }
}

pub fn any_wallprops<S: Src>(s: &mut S) -> WallProps {
    WallProps {
        space: uid(100),
        space_next: None,
        bounds: any_bounds(s),
        cons: uid(200),
        orientation: Orientation::S,
        tilt: any_tilt(s),
        area_gross: 0.0,
        area_net: s.g(3),
        multiplier: if s.bool() { 1.0 } else { 2.0 },
        is_tenv: s.bool(),
        u_value: s.og(3),
        u_value_override: s.og(3),
    }
}

pub fn any_winprops<S: Src>(s: &mut S, wall: Uuid) -> WinProps {
    WinProps {
        cons: uid(300),
        wall,
        orientation: Orientation::S,
        tilt: Tilt::SIDE,
        area: s.g(3),
        // the statement takes the multiplier, boundary and membership from the wall: make the window's
        // own copies arbitrary so that using them instead is detected
        multiplier: if s.bool() { 1.0 } else { 2.0 },
        bounds: any_bounds(s),
        is_tenv: s.bool(),
        u_value: s.og(3),
        u_value_override: s.og(3),
        f_shobst: None,
        f_shobst_override: None,
    }
}

pub fn any_tbkind<S: Src>(s: &mut S) -> (ThermalBridgeKind, usize) {
    use ThermalBridgeKind::*;
    let k = s.below(9) as usize;
    ([ROOF, BALCONY, CORNER, INTERMEDIATEFLOOR, INTERNALWALL, GROUNDFLOOR, PILLAR, WINDOW, GENERIC][k], k)
}

fn in_scope(w: &WallProps) -> bool {
    w.is_tenv && (w.bounds == BoundaryType::EXTERIOR || w.bounds == BoundaryType::GROUND)
}

/// category index: 0 walls, 1 roofs, 2 floors, 3 ground
fn category(w: &WallProps) -> usize {
    if w.bounds == BoundaryType::GROUND {
        3
    } else {
        match w.tilt {
            Tilt::SIDE => 0,
            Tilt::TOP => 1,
            Tilt::BOTTOM => 2,
        }
    }
}

#[derive(Clone, Copy)]
struct Cat {
    a: i32,
    au: i32,
    umin: i32,
    umax: i32,
    n: i32,
}

fn check_cat(got: &KElementProps, c: &Cat) {
    assert!(got.a == c.a as f32, "C08:category area");
    assert!(got.au == c.au as f32, "C08:category A*U");
    if c.n > 0 {
        assert!(got.u_min == Some(c.umin as f32), "C08:category U min");
        assert!(got.u_max == Some(c.umax as f32), "C08:category U max");
    } else {
        assert!(got.u_min.is_none() && got.u_max.is_none(), "C08:empty category has no U range");
    }
    if c.a > 0 {
        let um = got.u_mean.unwrap();
        assert!(um == c.au as f32 / c.a as f32, "C08:category mean = AU/A");
        assert!(got.u_min.unwrap() <= um && um <= got.u_max.unwrap(), "C08:category mean between min and max");
    } else {
        assert!(got.u_mean.is_none(), "C08:category without area has no mean");
    }
}

/// Independent integer oracle for K; U values on the grid {0..3}, areas {0..3}, multipliers {1,2},
/// bridge lengths and psi in {-1..2}.  `allow_default`: elements without any U are allowed (5.7 default)
/// only when false is the reference exact in integers, so they are excluded there.
pub fn k_case<S: Src>(s: &mut S, nwalls: usize, nwins: usize, ntbs: usize) {
    let mut p = props0();
    let mut walls: Vec<WallProps> = Vec::new();
    let mut i = 0;
    while i < nwalls {
        walls.push(any_wallprops(s));
        i += 1;
    }
    let mut cats = [Cat { a: 0, au: 0, umin: 99, umax: -99, n: 0 }; 5]; // 4 = windows
    let mut dflt = false;
    let mut wins: Vec<WinProps> = Vec::new();
    let mut j = 0;
    while j < nwins {
        // link: one of the walls, or an id that exists nowhere
        let l = s.below(nwalls as u8 + 1) as usize;
        let wid = if l < nwalls { uid(1 + l as u128) } else { uid(77) };
        wins.push(any_winprops(s, wid));
        j += 1;
    }
    let mut i = 0;
    while i < nwalls {
        let w = &walls[i];
        if in_scope(w) {
            let m = w.multiplier as i32;
            let c = category(w);
            match w.u_value_override.or(w.u_value) {
                Some(u) => {
                    let u = u as i32;
                    cats[c].a += m * w.area_net as i32;
                    cats[c].au += m * (w.area_net as i32) * u;
                    if u < cats[c].umin { cats[c].umin = u; }
                    if u > cats[c].umax { cats[c].umax = u; }
                    cats[c].n += 1;
                }
                None => dflt = true,
            }
            let mut j = 0;
            while j < nwins {
                let wi = &wins[j];
                if wi.wall == uid(1 + i as u128) {
                    match wi.u_value_override.or(wi.u_value) {
                        Some(u) => {
                            let u = u as i32;
                            cats[4].a += m * wi.area as i32;
                            cats[4].au += m * (wi.area as i32) * u;
                            if u < cats[4].umin { cats[4].umin = u; }
                            if u > cats[4].umax { cats[4].umax = u; }
                            cats[4].n += 1;
                        }
                        None => dflt = true,
                    }
                }
                j += 1;
            }
        }
        i += 1;
    }
    // thermal bridges
    let mut tl = [0i32; 9];
    let mut tp = [0i32; 9];
    let mut t = 0;
    let mut neg_seen = false;
    while t < ntbs {
        let (kind, k) = any_tbkind(s);
        let l = s.int(-1, 2);
        let psi = s.int(-1, 2);
        if l >= 0 {
            tl[k] += l;
            tp[k] += psi * l;
        } else {
            neg_seen = true;
        }
        p.thermal_bridges.insert(uid(21 + t as u128), TbProps { kind, l: l as f32, psi: psi as f32 });
        t += 1;
    }
    let mut i = 0;
    while i < nwalls {
        p.walls.insert(uid(1 + i as u128), walls[i].clone());
        i += 1;
    }
    let mut j = 0;
    while j < nwins {
        p.windows.insert(uid(11 + j as u128), wins[j].clone());
        j += 1;
    }

    let k = KData::from(&p);

    // the 5.7 default is not on the integer grid: decided by k_default_u (mirror form)
    s.assume(!dflt);
    let op_a = cats[0].a + cats[1].a + cats[2].a + cats[3].a;
    let op_au = cats[0].au + cats[1].au + cats[2].au + cats[3].au;
    let a_i = op_a + cats[4].a;
    let tl_sum = tl[0] + tl[1] + tl[2] + tl[3] + tl[4] + tl[5] + tl[6] + tl[7] + tl[8];
    let tp_sum = tp[0] + tp[1] + tp[2] + tp[3] + tp[4] + tp[5] + tp[6] + tp[7] + tp[8];
    let au_i = op_au + cats[4].au + tp_sum;
    cover!(a_i > 0 && au_i > 0, "non-empty envelope");
    cover!(cats[4].a > 0, "a window is counted");
    cover!(cats[3].a > 0, "a ground element is counted");
    if ntbs > 0 {
        cover!(neg_seen, "a bridge of negative length is skipped");
    }
    check_cat(&k.walls, &cats[0]);
    check_cat(&k.roofs, &cats[1]);
    check_cat(&k.floors, &cats[2]);
    check_cat(&k.ground, &cats[3]);
    check_cat(&k.windows, &cats[4]);
    let tb = [k.tbs.roof, k.tbs.balcony, k.tbs.corner, k.tbs.intermediate_floor, k.tbs.internal_wall, k.tbs.ground_floor, k.tbs.pillar, k.tbs.window, k.tbs.generic];
    // (straight-line on purpose: keeps the global unwind bound small)
    assert!(tb[0].l == tl[0] as f32 && tb[1].l == tl[1] as f32 && tb[2].l == tl[2] as f32 && tb[3].l == tl[3] as f32 && tb[4].l == tl[4] as f32
        && tb[5].l == tl[5] as f32 && tb[6].l == tl[6] as f32 && tb[7].l == tl[7] as f32 && tb[8].l == tl[8] as f32, "C08:bridge length by kind");
    assert!(tb[0].psil == tp[0] as f32 && tb[1].psil == tp[1] as f32 && tb[2].psil == tp[2] as f32 && tb[3].psil == tp[3] as f32 && tb[4].psil == tp[4] as f32
        && tb[5].psil == tp[5] as f32 && tb[6].psil == tp[6] as f32 && tb[7].psil == tp[7] as f32 && tb[8].psil == tp[8] as f32, "C08:bridge psi*L by kind");
    assert!(k.summary.opaques_a == op_a as f32, "C08:opaque area total");
    assert!(k.summary.opaques_au == op_au as f32, "C08:opaque A*U total");
    assert!(k.summary.windows_a == cats[4].a as f32, "C08:window area total");
    assert!(k.summary.windows_au == cats[4].au as f32, "C08:window A*U total");
    assert!(k.summary.tbs_l == tl_sum as f32, "C08:bridge length total");
    assert!(k.summary.tbs_psil == tp_sum as f32, "C08:bridge psi*L total");
    assert!(k.summary.a == a_i as f32, "C08:total area = in-scope opaque + window area");
    assert!(k.summary.au == au_i as f32, "C08:total = sum A*U + sum psi*L");
    if a_i > 0 {
        assert!(k.K == au_i as f32 / a_i as f32, "C08:K = (sum A*U + sum psi*L) / sum A");
    } else {
        assert!(k.K == 0.0, "C08:K = 0 without envelope area");
    }
    std::mem::forget(p);
    std::mem::forget(walls);
    std::mem::forget(wins);
}

harnesses! {
    /// K formula, membership, precedence, multipliers, categories: 1 wall + 1 window + 1 bridge
    #[kani::unwind(4)]
    #[kani::stub(alloc::fmt::format, crate::stubs::fmt_stub)]
    fn k_formula_111(s) { k_case(s, 1, 1, 1) }

    /// 2 walls + 1 window + 1 bridge
    #[kani::unwind(5)]
    #[kani::stub(alloc::fmt::format, crate::stubs::fmt_stub)]
    fn k_formula_211(s) { k_case(s, 2, 1, 1) }

    /// 2 walls + 2 windows + 2 bridges
    #[kani::unwind(5)]
    #[kani::stub(alloc::fmt::format, crate::stubs::fmt_stub)]
    fn k_formula_222(s) { k_case(s, 2, 2, 2) }

    /// 5.7 W/m2K where no U can be computed; user override before computed value (mirror form, any finite f32)
    #[kani::unwind(4)]
    #[kani::stub(alloc::fmt::format, crate::stubs::fmt_stub)]
    fn k_default_u(s) {
        let mut p = props0();
        let a = s.g(7);
        let aw = s.g(7);
        let m = if s.bool() { 1.0 } else { 2.0 };
        let (wu, wo) = (s.bool(), s.bool());
        let (uu, uo) = (s.g(15) * 0.25, s.g(15) * 0.25);
        let (xu, xo) = (s.bool(), s.bool());
        let (vu, vo) = (s.g(15) * 0.25, s.g(15) * 0.25);
        let w = WallProps { space: uid(100), space_next: None, bounds: BoundaryType::EXTERIOR, cons: uid(200), orientation: Orientation::S, tilt: Tilt::SIDE,
            area_gross: 0.0, area_net: a, multiplier: m, is_tenv: true,
            u_value: if wu { Some(uu) } else { None }, u_value_override: if wo { Some(uo) } else { None } };
        let wi = WinProps { cons: uid(300), wall: uid(1), orientation: Orientation::S, tilt: Tilt::SIDE, area: aw, multiplier: 1.0, bounds: BoundaryType::EXTERIOR, is_tenv: true,
            u_value: if xu { Some(vu) } else { None }, u_value_override: if xo { Some(vo) } else { None }, f_shobst: None, f_shobst_override: None };
        p.walls.insert(uid(1), w);
        p.windows.insert(uid(11), wi);
        let k = KData::from(&p);
        let u_wall = if wo { uo } else if wu { uu } else { 5.7 };
        let u_win = if xo { vo } else if xu { vu } else { 5.7 };
        cover!(!wo && !wu && !xo && xu, "wall defaults to 5.7, window computed");
        cover!(wo && wu && uo != uu, "override differs from computed");
        assert!(k.walls.au == (m * a) * u_wall, "C08:wall uses override, else computed, else 5.7");
        assert!(k.windows.au == (m * aw) * u_win, "C08:window uses override, else computed, else 5.7");
        assert!(k.walls.u_max == Some(u_wall) && k.walls.u_min == Some(u_wall), "C08:U range of a single wall");
        assert!(k.windows.u_max == Some(u_win) && k.windows.u_min == Some(u_win), "C08:U range of a single window");
        std::mem::forget(p);
    }

    /// K does not depend on element ids or order: two walls and a window under swapped ids
    #[kani::unwind(5)]
    #[kani::stub(alloc::fmt::format, crate::stubs::fmt_stub)]
    fn k_permutation(s) {
        let w1 = any_wallprops(s);
        let w2 = any_wallprops(s);
        let on1 = s.bool();
        let wi = any_winprops(s, uid(0));
        let mut p = props0();
        let mut q = props0();
        // p: w1 has id 1, w2 has id 2 ; q: renamed and reordered: w1 has id 9, w2 has id 5
        p.walls.insert(uid(1), w1.clone());
        p.walls.insert(uid(2), w2.clone());
        q.walls.insert(uid(9), w1.clone());
        q.walls.insert(uid(5), w2.clone());
        let mut wp = wi.clone();
        wp.wall = if on1 { uid(1) } else { uid(2) };
        let mut wq = wi.clone();
        wq.wall = if on1 { uid(9) } else { uid(5) };
        p.windows.insert(uid(11), wp);
        q.windows.insert(uid(3), wq);
        let a = KData::from(&p);
        let b = KData::from(&q);
        cover!(a.summary.a > 0.0 && a.windows.a > 0.0, "window counted");
        assert!(a.K == b.K, "C08:K unchanged by renaming/reordering");
        assert!(a.summary.a == b.summary.a && a.summary.au == b.summary.au, "C08:totals unchanged by renaming/reordering");
        assert!(a.walls.a == b.walls.a && a.roofs.a == b.roofs.a && a.floors.a == b.floors.a && a.ground.a == b.ground.a && a.windows.a == b.windows.a, "C08:category areas unchanged by renaming/reordering");
        assert!(a.walls.u_min == b.walls.u_min && a.walls.u_max == b.walls.u_max && a.windows.u_min == b.windows.u_min, "C08:U ranges unchanged by renaming/reordering");
        std::mem::forget(p);
        std::mem::forget(q);
    }
}
