//! C20 — calendar day numbers, beam radiation sign, angle wrapping (trig-free clauses only).
use crate::common::*;
use crate::c17::{CUM, MDAYS};

harnesses! {
    /// climate::nday_from_md(m, d) equals the cumulative calendar for all 365 dates
    #[kani::unwind(14)]
    fn nday_calendar(s) {
        let m = s.u32();
        let d = s.u32();
        s.assume(m >= 1 && m <= 12);
        s.assume(d >= 1 && d <= MDAYS[(m - 1) as usize]);
        cover!(m == 12 && d == 31, "31 Dec");
        cover!(m == 2 && d == 28, "28 Feb");
        let n = climate::nday_from_md(m, d);
        assert!(n == CUM[(m - 1) as usize] + d, "C20:nday_from_md = calendar");
    }
}
