//! Harness crate for solver-based checking of pachi/cteenergymodel (see /verif/DESIGN.md).
//! Every harness body is a generic function over a value source (`src::Src`); under Kani it is
//! wrapped in a `#[kani::proof]`, natively it is reachable through `registry()` for replay.
#![allow(clippy::all)]
#![allow(unused_imports, dead_code, non_snake_case)]
extern crate alloc;

pub mod src;
#[macro_use]
pub mod macros;
pub mod common;
pub mod shared_stubs;
#[cfg(kani)]
pub mod stubs;

pub mod c03;
pub mod c04;
pub mod c06;
pub mod c07;
pub mod c08;
pub mod c09;
pub mod c10;
pub mod c11;
pub mod c11p;
pub mod c12;
pub mod c13;
pub mod c13p;
pub mod c14;
pub mod c15;
pub mod c16;
pub mod c17;
pub mod c19;
pub mod c20;

use src::BytesSrc;

pub type NativeFn = fn(&mut BytesSrc);

pub fn registry() -> Vec<(&'static str, NativeFn)> {
    let mut v: Vec<(&'static str, NativeFn)> = Vec::new();
    v.extend_from_slice(c03::REG);
    v.extend_from_slice(c04::REG);
    v.extend_from_slice(c06::REG);
    v.extend_from_slice(c06::dispatch::REG);
    v.extend_from_slice(c07::REG);
    v.extend_from_slice(c08::REG);
    v.extend_from_slice(c09::REG);
    v.extend_from_slice(c10::REG);
    v.extend_from_slice(c11::REG);
    v.extend_from_slice(c11p::REG);
    v.extend_from_slice(c12::REG);
    v.extend_from_slice(c13::REG);
    v.extend_from_slice(c13::geo::REG);
    v.extend_from_slice(c13p::REG);
    v.extend_from_slice(c14::REG);
    v.extend_from_slice(c15::REG);
    v.extend_from_slice(c16::REG);
    v.extend_from_slice(c17::REG);
    v.extend_from_slice(c17::sched::REG);
    v.extend_from_slice(c19::REG);
    v.extend_from_slice(c20::REG);
    v
}
