//! C16 — purging removes exactly the unreachable items, keeps order, is idempotent.
use crate::common::*;

fn sp(id: u128, loads: Option<Uuid>, th: Option<Uuid>) -> Space {
    Space { id: uid(id), name: String::new(), multiplier: 1.0, kind: SpaceType::CONDITIONED, inside_tenv: true, height: 3.0, z: 0.0, loads, thermostat: th, n_v: None, illuminance: None }
}

/// choice among two existing ids, or an id that exists nowhere
fn pick<S: Src>(s: &mut S, a: u128, b: u128) -> Uuid {
    match s.below(3) {
        0 => uid(a),
        1 => uid(b),
        _ => uid(0xdead),
    }
}

fn opt_pick<S: Src>(s: &mut S, a: u128, b: u128) -> Option<Uuid> {
    if s.bool() { Some(pick(s, a, b)) } else { None }
}

/// expected survivors of a two-element collection with ids (a, b): the retained id sequence
fn expect2(ids: &[Uuid], a: u128, b: u128, ka: bool, kb: bool, what_len: &str) {
    let n = ka as usize + kb as usize;
    assert!(ids.len() == n, "C16:exactly the unreachable items are removed");
    if ka && kb {
        assert!(ids[0] == uid(a) && ids[1] == uid(b), "C16:relative order of what remains is kept");
    } else if ka {
        assert!(ids[0] == uid(a), "C16:a reachable item is kept");
    } else if kb {
        assert!(ids[0] == uid(b), "C16:a reachable item is kept");
    }
    let _ = what_len;
}

harnesses! {
    /// envelope half: spaces, thermal bridges, wall/window constructions, materials, glasses, frames
    #[kani::unwind(5)]
    #[kani::stub(alloc::fmt::format, crate::stubs::fmt_stub)]
    fn purge_envelope(s) {
        let mut m = Model::default();
        m.spaces.push(sp(1, None, None));
        m.spaces.push(sp(2, None, None));
        m.spaces.push(sp(3, None, None));
        // one wall: space in {1,2,3,absent}, next_to in {None,1,2,3}
        let ws = s.below(4);
        let wn = s.below(4);
        let wc = pick(s, 11, 12);
        let wall_space = if ws < 3 { uid(1 + ws as u128) } else { uid(0xdead) };
        let wall_next = if wn < 3 { Some(uid(1 + wn as u128)) } else { None };
        m.walls.push(Wall { id: uid(31), name: String::new(), bounds: BoundaryType::INTERIOR, cons: wc, space: wall_space, next_to: wall_next, geometry: WallGeom::default() });
        let has_win = s.bool();
        let winc = pick(s, 21, 22);
        if has_win {
            m.windows.push(Window { id: uid(41), name: String::new(), cons: winc, wall: uid(31), geometry: WinGeom::default() });
        }
        // wall constructions 11, 12 with one layer each pointing to materials {51,52,absent}
        let (ma, mb) = (pick(s, 51, 52), pick(s, 51, 52));
        m.cons.wallcons.push(WallCons { id: uid(11), name: String::new(), layers: vec![Layer { material: ma, e: 0.1 }], absorptance: 0.5 });
        m.cons.wallcons.push(WallCons { id: uid(12), name: String::new(), layers: vec![Layer { material: mb, e: 0.1 }], absorptance: 0.5 });
        m.cons.materials.push(Material { id: uid(51), name: String::new(), properties: MatProps::Resistance { resistance: 1.0, vapour_diff: None } });
        m.cons.materials.push(Material { id: uid(52), name: String::new(), properties: MatProps::Resistance { resistance: 2.0, vapour_diff: None } });
        // window constructions 21, 22 with glass in {61,62,absent}, frame in {71,72,absent}
        let (ga, gb, fa, fb) = (pick(s, 61, 62), pick(s, 61, 62), pick(s, 71, 72), pick(s, 71, 72));
        m.cons.wincons.push(WinCons { id: uid(21), name: String::new(), glass: ga, frame: fa, f_f: 0.25, delta_u: 0.0, g_glshwi: None, c_100: 27.0 });
        m.cons.wincons.push(WinCons { id: uid(22), name: String::new(), glass: gb, frame: fb, f_f: 0.25, delta_u: 0.0, g_glshwi: None, c_100: 27.0 });
        m.cons.glasses.push(Glass { id: uid(61), name: String::new(), u_value: 1.0, g_gln: 0.5 });
        m.cons.glasses.push(Glass { id: uid(62), name: String::new(), u_value: 2.0, g_gln: 0.5 });
        m.cons.frames.push(Frame { id: uid(71), name: String::new(), u_value: 1.0, absorptivity: 0.5 });
        m.cons.frames.push(Frame { id: uid(72), name: String::new(), u_value: 2.0, absorptivity: 0.5 });
        // two bridges with length in {-1, 0, 1}
        let (l1, l2) = (s.gi(-1, 1), s.gi(-1, 1));
        m.thermal_bridges.push(ThermalBridge { id: uid(81), name: String::new(), kind: ThermalBridgeKind::ROOF, l: l1, psi: 0.5 });
        m.thermal_bridges.push(ThermalBridge { id: uid(82), name: String::new(), kind: ThermalBridgeKind::CORNER, l: l2, psi: 0.5 });
        let warn_before = check(&m).len();

        let w1 = purge_unused(&mut m);

        // independent reachability
        let used_sp = |i: u8| ws == i || wn == i;
        let sids: Vec<Uuid> = m.spaces.iter().map(|x| x.id).collect();
        let nsp = used_sp(0) as usize + used_sp(1) as usize + used_sp(2) as usize;
        assert!(sids.len() == nsp, "C16:exactly the spaces no wall refers to are removed");
        let mut k = 0;
        let mut q = 0u8;
        while q < 3 {
            if used_sp(q) {
                assert!(sids[k] == uid(1 + q as u128), "C16:space order kept");
                k += 1;
            }
            q += 1;
        }
        let tids: Vec<Uuid> = m.thermal_bridges.iter().map(|x| x.id).collect();
        expect2(&tids, 81, 82, l1 != 0.0, l2 != 0.0, "bridges");
        let (k11, k12) = (wc == uid(11), wc == uid(12));
        let cids: Vec<Uuid> = m.cons.wallcons.iter().map(|x| x.id).collect();
        expect2(&cids, 11, 12, k11, k12, "wallcons");
        let (k21, k22) = (has_win && winc == uid(21), has_win && winc == uid(22));
        let wids: Vec<Uuid> = m.cons.wincons.iter().map(|x| x.id).collect();
        expect2(&wids, 21, 22, k21, k22, "wincons");
        // chains: materials of the constructions that remain, glasses/frames of the window constructions that remain
        let used_m = |id: u128| (k11 && ma == uid(id)) || (k12 && mb == uid(id));
        let mids: Vec<Uuid> = m.cons.materials.iter().map(|x| x.id).collect();
        expect2(&mids, 51, 52, used_m(51), used_m(52), "materials");
        let used_g = |id: u128| (k21 && ga == uid(id)) || (k22 && gb == uid(id));
        let gids: Vec<Uuid> = m.cons.glasses.iter().map(|x| x.id).collect();
        expect2(&gids, 61, 62, used_g(61), used_g(62), "glasses");
        let used_f = |id: u128| (k21 && fa == uid(id)) || (k22 && fb == uid(id));
        let fids: Vec<Uuid> = m.cons.frames.iter().map(|x| x.id).collect();
        expect2(&fids, 71, 72, used_f(71), used_f(72), "frames");
        assert!(m.walls.len() == 1 && m.windows.len() == has_win as usize, "C16:walls and windows are never removed");
        cover!(nsp == 1 && !k11 && k12 && used_m(51) && !used_m(52), "chain removal in one call");
        cover!(has_win && k22 && used_g(61) && used_f(72), "window construction chain kept");
        // no new broken link; idempotence
        let warn_after = check(&m).len();
        assert!(warn_after <= warn_before, "C16:purging introduces no broken link");
        let w2 = purge_unused(&mut m);
        assert!(m.spaces.len() == nsp && m.thermal_bridges.len() == tids.len() && m.cons.wallcons.len() == cids.len() && m.cons.wincons.len() == wids.len()
            && m.cons.materials.len() == mids.len() && m.cons.glasses.len() == gids.len() && m.cons.frames.len() == fids.len(), "C16:purging twice equals purging once");
        std::mem::forget(m);
        std::mem::forget((w1, w2, sids, tids, cids, wids, mids, gids, fids));
    }

    /// usage half: loads, thermostats, yearly/weekly/daily schedules (sharing and chains)
    #[kani::unwind(5)]
    #[kani::stub(alloc::fmt::format, crate::stubs::fmt_stub)]
    fn purge_usage(s) {
        let mut m = Model::default();
        // two spaces; space 2 is used by the wall only if `s2used`
        let (la, lb) = (opt_pick(s, 101, 102), opt_pick(s, 101, 102));
        let (ta, tb) = (opt_pick(s, 111, 112), opt_pick(s, 111, 112));
        m.spaces.push(sp(1, la, ta));
        m.spaces.push(sp(2, lb, tb));
        let s2used = s.bool();
        m.walls.push(Wall { id: uid(31), name: String::new(), bounds: BoundaryType::INTERIOR, cons: uid(0), space: uid(1), next_to: if s2used { Some(uid(2)) } else { None }, geometry: WallGeom::default() });
        // loads 101, 102: people / equipment / lighting schedules
        let (p1, e1, g1) = (opt_pick(s, 121, 122), opt_pick(s, 121, 122), opt_pick(s, 121, 122));
        let p2 = opt_pick(s, 121, 122);
        m.loads.push(SpaceLoads { id: uid(101), name: String::new(), area_per_person: 10.0, people_schedule: p1, people_sensible: 1.0, people_latent: 1.0, equipment: 1.0, equipment_schedule: e1, lighting: 1.0, lighting_schedule: g1 });
        m.loads.push(SpaceLoads { id: uid(102), name: String::new(), area_per_person: 10.0, people_schedule: p2, people_sensible: 1.0, people_latent: 1.0, equipment: 1.0, equipment_schedule: None, lighting: 1.0, lighting_schedule: None });
        let (x1, n1) = (opt_pick(s, 121, 122), opt_pick(s, 121, 122));
        m.thermostats.push(Thermostat { id: uid(111), name: String::new(), temp_max: x1, temp_min: n1 });
        m.thermostats.push(Thermostat { id: uid(112), name: String::new(), temp_max: None, temp_min: None });
        // yearly 121, 122 -> weekly {131,132,absent}; weekly 131, 132 -> daily {141,142,absent}
        let (ya, yb) = (pick(s, 131, 132), pick(s, 131, 132));
        m.schedules.year.push(Schedule { id: uid(121), name: String::new(), values: vec![(ya, 365)] });
        m.schedules.year.push(Schedule { id: uid(122), name: String::new(), values: vec![(yb, 365)] });
        let (wa, wb) = (pick(s, 141, 142), pick(s, 141, 142));
        m.schedules.week.push(ScheduleWeek { id: uid(131), name: String::new(), values: vec![(wa, 7)] });
        m.schedules.week.push(ScheduleWeek { id: uid(132), name: String::new(), values: vec![(wb, 7)] });
        m.schedules.day.push(ScheduleDay { id: uid(141), name: String::new(), values: Vec::new() });
        m.schedules.day.push(ScheduleDay { id: uid(142), name: String::new(), values: Vec::new() });

        let w1 = purge_unused(&mut m);

        let sp2 = s2used;
        assert!(m.spaces.len() == 1 + sp2 as usize, "C16:exactly the spaces no wall refers to are removed");
        let used_l = |id: u128| la == Some(uid(id)) || (sp2 && lb == Some(uid(id)));
        let used_t = |id: u128| ta == Some(uid(id)) || (sp2 && tb == Some(uid(id)));
        let lids: Vec<Uuid> = m.loads.iter().map(|x| x.id).collect();
        expect2(&lids, 101, 102, used_l(101), used_l(102), "loads");
        let thids: Vec<Uuid> = m.thermostats.iter().map(|x| x.id).collect();
        expect2(&thids, 111, 112, used_t(111), used_t(112), "thermostats");
        let (k101, k102, k111) = (used_l(101), used_l(102), used_t(111));
        let used_y = |id: u128| {
            let u = Some(uid(id));
            (k101 && (p1 == u || e1 == u || g1 == u)) || (k102 && p2 == u) || (k111 && (x1 == u || n1 == u))
        };
        let yids: Vec<Uuid> = m.schedules.year.iter().map(|x| x.id).collect();
        expect2(&yids, 121, 122, used_y(121), used_y(122), "yearly");
        let (k121, k122) = (used_y(121), used_y(122));
        let used_w = |id: u128| (k121 && ya == uid(id)) || (k122 && yb == uid(id));
        let wkids: Vec<Uuid> = m.schedules.week.iter().map(|x| x.id).collect();
        expect2(&wkids, 131, 132, used_w(131), used_w(132), "weekly");
        let (k131, k132) = (used_w(131), used_w(132));
        let used_d = |id: u128| (k131 && wa == uid(id)) || (k132 && wb == uid(id));
        let dids: Vec<Uuid> = m.schedules.day.iter().map(|x| x.id).collect();
        expect2(&dids, 141, 142, used_d(141), used_d(142), "daily");
        cover!(!sp2 && lb == Some(uid(102)) && !k102 && k101, "loads of a purged space are purged in the same call");
        cover!(k121 && !k122 && k131 && !k132 && used_d(142) && !used_d(141), "schedule chain year->week->day");
        cover!(k101 && k111 && p1 == x1 && p1.is_some(), "schedule shared between loads and thermostat");
        let w2 = purge_unused(&mut m);
        assert!(m.loads.len() == lids.len() && m.thermostats.len() == thids.len() && m.schedules.year.len() == yids.len()
            && m.schedules.week.len() == wkids.len() && m.schedules.day.len() == dids.len() && m.spaces.len() == 1 + sp2 as usize, "C16:purging twice equals purging once");
        std::mem::forget(m);
        std::mem::forget((w1, w2, lids, thids, yids, wkids, dids));
    }
}
