//! C16 — purging removes exactly the unreachable items, keeps order, is idempotent.
use crate::common::*;

fn sp(id: u128, loads: Option<Uuid>, th: Option<Uuid>) -> Space {
    Space { id: uid(id), name: String::new(), multiplier: 1.0, kind: SpaceType::CONDITIONED, inside_tenv: true, height: 3.0, z: 0.0, loads, thermostat: th, n_v: None, illuminance: None }
}

/// choice among two existing ids, or an id that exists nowhere
fn pick<S: Src>(s: &mut S, a: u128, b: u128) -> Uuid {
    match s.below(3) {
        0 => uid(a),
        1 => uid(b),
        _ => uid(0xdead),
    }
}

fn opt_pick<S: Src>(s: &mut S, a: u128, b: u128) -> Option<Uuid> {
    if s.bool() { Some(pick(s, a, b)) } else { None }
}

/// expected survivors of a two-element collection with ids (a, b): the retained id sequence
fn expect2(ids: &[Uuid], a: u128, b: u128, ka: bool, kb: bool, what_len: &str) {
    let n = ka as usize + kb as usize;
    assert!(ids.len() == n, "C16:exactly the unreachable items are removed");
    if ka && kb {
        assert!(ids[0] == uid(a) && ids[1] == uid(b), "C16:relative order of what remains is kept");
    } else if ka {
        assert!(ids[0] == uid(a), "C16:a reachable item is kept");
    } else if kb {
        assert!(ids[0] == uid(b), "C16:a reachable item is kept");
    }
    let _ = what_len;
}

harnesses! {
    /// spaces (3) and thermal bridges (2)
    #[kani::unwind(5)]
    #[kani::stub(alloc::fmt::format, crate::stubs::fmt_stub)]
    fn purge_spaces_tbs(s) {
        let mut m = Model::default();
        m.spaces.push(sp(1, None, None));
        m.spaces.push(sp(2, None, None));
        m.spaces.push(sp(3, None, None));
        let ws = s.below(4);
        let wn = s.below(4);
        let wall_space = if ws < 3 { uid(1 + ws as u128) } else { uid(0xdead) };
        let wall_next = if wn < 3 { Some(uid(1 + wn as u128)) } else { None };
        m.walls.push(Wall { id: uid(31), name: String::new(), bounds: BoundaryType::INTERIOR, cons: uid(11), space: wall_space, next_to: wall_next, geometry: WallGeom::default() });
        let (l1, l2) = (s.gi(-1, 1), s.gi(-1, 1));
        m.thermal_bridges.push(ThermalBridge { id: uid(81), name: String::new(), kind: ThermalBridgeKind::ROOF, l: l1, psi: 0.5 });
        m.thermal_bridges.push(ThermalBridge { id: uid(82), name: String::new(), kind: ThermalBridgeKind::CORNER, l: l2, psi: 0.5 });
        let w1 = purge_unused(&mut m);
        let used_sp = |i: u8| ws == i || wn == i;
        let nsp = used_sp(0) as usize + used_sp(1) as usize + used_sp(2) as usize;
        assert!(m.spaces.len() == nsp, "C16:exactly the spaces no wall refers to are removed");
        // survivors in original order: first survivor is the lowest used index, last the highest
        if nsp > 0 {
            let first = if used_sp(0) { 1 } else if used_sp(1) { 2 } else { 3 };
            assert!(m.spaces[0].id.as_u128() == first, "C16:space order kept (first survivor)");
        }
        if nsp == 2 {
            let last = if used_sp(2) { 3 } else { 2 };
            assert!(m.spaces[1].id.as_u128() == last, "C16:space order kept (second survivor)");
        }
        let nt = (l1 != 0.0) as usize + (l2 != 0.0) as usize;
        assert!(m.thermal_bridges.len() == nt, "C16:exactly the bridges of zero length are removed");
        if nt > 0 {
            assert!(m.thermal_bridges[0].id.as_u128() == if l1 != 0.0 { 81 } else { 82 }, "C16:bridge order kept");
        }
        assert!(m.walls.len() == 1, "C16:walls are never removed");
        cover!(nsp == 1, "one space survives");
        cover!(nsp == 2 && nt == 1, "two spaces, one bridge survive");
        let w2 = purge_unused(&mut m);
        assert!(m.spaces.len() == nsp && m.thermal_bridges.len() == nt, "C16:purging twice equals purging once");
        std::mem::forget(m);
        std::mem::forget((w1, w2));
    }

    /// wall constructions (2) and their materials (2): chain removal in one call
    #[kani::unwind(5)]
    #[kani::stub(alloc::fmt::format, crate::stubs::fmt_stub)]
    fn purge_wallcons(s) {
        let mut m = Model::default();
        let wc = pick(s, 11, 12);
        m.walls.push(Wall { id: uid(31), name: String::new(), bounds: BoundaryType::EXTERIOR, cons: wc, space: uid(1), next_to: None, geometry: WallGeom::default() });
        let (ma, mb) = (pick(s, 51, 52), pick(s, 51, 52));
        m.cons.wallcons.push(WallCons { id: uid(11), name: String::new(), layers: vec![Layer { material: ma, e: 0.1 }], absorptance: 0.5 });
        m.cons.wallcons.push(WallCons { id: uid(12), name: String::new(), layers: vec![Layer { material: mb, e: 0.1 }], absorptance: 0.5 });
        m.cons.materials.push(Material { id: uid(51), name: String::new(), properties: MatProps::Resistance { resistance: 1.0, vapour_diff: None } });
        m.cons.materials.push(Material { id: uid(52), name: String::new(), properties: MatProps::Resistance { resistance: 2.0, vapour_diff: None } });
        let w1 = purge_unused(&mut m);
        let (k11, k12) = (wc == uid(11), wc == uid(12));
        assert!(m.cons.wallcons.len() == (k11 || k12) as usize, "C16:exactly the wall constructions no wall uses are removed");
        if k11 || k12 {
            assert!(m.cons.wallcons[0].id.as_u128() == if k11 { 11 } else { 12 }, "C16:the used wall construction is kept");
        }
        let used_m = |id: u128| (k11 && ma == uid(id)) || (k12 && mb == uid(id));
        let nm = used_m(51) as usize + used_m(52) as usize;
        assert!(m.cons.materials.len() == nm, "C16:exactly the materials not reachable from remaining constructions are removed");
        if nm == 1 {
            assert!(m.cons.materials[0].id.as_u128() == if used_m(51) { 51 } else { 52 }, "C16:the reachable material is kept");
        }
        cover!(k12 && used_m(51) && !used_m(52), "material kept through the second construction only");
        cover!(!k11 && !k12 && nm == 0, "dangling construction link: everything unreachable goes");
        let w2 = purge_unused(&mut m);
        assert!(m.cons.wallcons.len() == (k11 || k12) as usize && m.cons.materials.len() == nm, "C16:purging twice equals purging once");
        std::mem::forget(m);
        std::mem::forget((w1, w2));
    }

    /// window constructions (2), glasses (2), frames (2)
    #[kani::unwind(5)]
    #[kani::stub(alloc::fmt::format, crate::stubs::fmt_stub)]
    fn purge_wincons(s) {
        let mut m = Model::default();
        let has_win = s.bool();
        let winc = pick(s, 21, 22);
        if has_win {
            m.windows.push(Window { id: uid(41), name: String::new(), cons: winc, wall: uid(31), geometry: WinGeom::default() });
        }
        let (ga, gb, fa, fb) = (pick(s, 61, 62), pick(s, 61, 62), pick(s, 71, 72), pick(s, 71, 72));
        m.cons.wincons.push(WinCons { id: uid(21), name: String::new(), glass: ga, frame: fa, f_f: 0.25, delta_u: 0.0, g_glshwi: None, c_100: 27.0 });
        m.cons.wincons.push(WinCons { id: uid(22), name: String::new(), glass: gb, frame: fb, f_f: 0.25, delta_u: 0.0, g_glshwi: None, c_100: 27.0 });
        m.cons.glasses.push(Glass { id: uid(61), name: String::new(), u_value: 1.0, g_gln: 0.5 });
        m.cons.glasses.push(Glass { id: uid(62), name: String::new(), u_value: 2.0, g_gln: 0.5 });
        m.cons.frames.push(Frame { id: uid(71), name: String::new(), u_value: 1.0, absorptivity: 0.5 });
        m.cons.frames.push(Frame { id: uid(72), name: String::new(), u_value: 2.0, absorptivity: 0.5 });
        let w1 = purge_unused(&mut m);
        let (k21, k22) = (has_win && winc == uid(21), has_win && winc == uid(22));
        assert!(m.cons.wincons.len() == (k21 || k22) as usize, "C16:exactly the window constructions no window uses are removed");
        if k21 || k22 {
            assert!(m.cons.wincons[0].id.as_u128() == if k21 { 21 } else { 22 }, "C16:the used window construction is kept");
        }
        let used_g = |id: u128| (k21 && ga == uid(id)) || (k22 && gb == uid(id));
        let used_f = |id: u128| (k21 && fa == uid(id)) || (k22 && fb == uid(id));
        let (ng, nf) = (used_g(61) as usize + used_g(62) as usize, used_f(71) as usize + used_f(72) as usize);
        assert!(m.cons.glasses.len() == ng, "C16:exactly the glazings not reachable are removed");
        assert!(m.cons.frames.len() == nf, "C16:exactly the frames not reachable are removed");
        if ng == 1 { assert!(m.cons.glasses[0].id.as_u128() == if used_g(61) { 61 } else { 62 }, "C16:the reachable glazing is kept"); }
        if nf == 1 { assert!(m.cons.frames[0].id.as_u128() == if used_f(71) { 71 } else { 72 }, "C16:the reachable frame is kept"); }
        cover!(k22 && used_g(61) && used_f(72), "chain through the second window construction");
        cover!(!has_win, "no window: everything goes");
        let w2 = purge_unused(&mut m);
        assert!(m.cons.wincons.len() == (k21 || k22) as usize && m.cons.glasses.len() == ng && m.cons.frames.len() == nf, "C16:purging twice equals purging once");
        std::mem::forget(m);
        std::mem::forget((w1, w2));
    }

    /// loads (2) and thermostats (2) of two spaces, one of which may itself be purged
    #[kani::unwind(5)]
    #[kani::stub(alloc::fmt::format, crate::stubs::fmt_stub)]
    fn purge_loads(s) {
        let mut m = Model::default();
        let (la, lb) = (opt_pick(s, 101, 102), opt_pick(s, 101, 102));
        let (ta, tb) = (opt_pick(s, 111, 112), opt_pick(s, 111, 112));
        m.spaces.push(sp(1, la, ta));
        m.spaces.push(sp(2, lb, tb));
        let s2used = s.bool();
        m.walls.push(Wall { id: uid(31), name: String::new(), bounds: BoundaryType::INTERIOR, cons: uid(0), space: uid(1), next_to: if s2used { Some(uid(2)) } else { None }, geometry: WallGeom::default() });
        m.loads.push(SpaceLoads { id: uid(101), name: String::new(), area_per_person: 10.0, people_schedule: None, people_sensible: 1.0, people_latent: 1.0, equipment: 1.0, equipment_schedule: None, lighting: 1.0, lighting_schedule: None });
        m.loads.push(SpaceLoads { id: uid(102), name: String::new(), area_per_person: 10.0, people_schedule: None, people_sensible: 1.0, people_latent: 1.0, equipment: 1.0, equipment_schedule: None, lighting: 1.0, lighting_schedule: None });
        m.thermostats.push(Thermostat { id: uid(111), name: String::new(), temp_max: None, temp_min: None });
        m.thermostats.push(Thermostat { id: uid(112), name: String::new(), temp_max: None, temp_min: None });
        let w1 = purge_unused(&mut m);
        assert!(m.spaces.len() == 1 + s2used as usize, "C16:exactly the spaces no wall refers to are removed");
        let used_l = |id: u128| la == Some(uid(id)) || (s2used && lb == Some(uid(id)));
        let used_t = |id: u128| ta == Some(uid(id)) || (s2used && tb == Some(uid(id)));
        let (nl, nt) = (used_l(101) as usize + used_l(102) as usize, used_t(111) as usize + used_t(112) as usize);
        assert!(m.loads.len() == nl, "C16:exactly the load definitions no remaining space uses are removed");
        assert!(m.thermostats.len() == nt, "C16:exactly the thermostats no remaining space uses are removed");
        if nl == 1 { assert!(m.loads[0].id.as_u128() == if used_l(101) { 101 } else { 102 }, "C16:the used load definition is kept"); }
        if nt == 1 { assert!(m.thermostats[0].id.as_u128() == if used_t(111) { 111 } else { 112 }, "C16:the used thermostat is kept"); }
        cover!(!s2used && lb == Some(uid(102)) && !used_l(102) && used_l(101), "loads of a purged space go in the same call");
        cover!(nl == 2 && nt == 2, "everything shared and kept");
        let w2 = purge_unused(&mut m);
        assert!(m.loads.len() == nl && m.thermostats.len() == nt, "C16:purging twice equals purging once");
        std::mem::forget(m);
        std::mem::forget((w1, w2));
    }

    /// schedule chain: loads/thermostat -> yearly (2) -> weekly (2) -> daily (2)
    #[kani::unwind(5)]
    #[kani::stub(alloc::fmt::format, crate::stubs::fmt_stub)]
    fn purge_schedules(s) {
        let mut m = Model::default();
        m.spaces.push(sp(1, Some(uid(101)), Some(uid(111))));
        m.walls.push(Wall { id: uid(31), name: String::new(), bounds: BoundaryType::EXTERIOR, cons: uid(0), space: uid(1), next_to: None, geometry: WallGeom::default() });
        let (p1, e1, g1) = (opt_pick(s, 121, 122), opt_pick(s, 121, 122), opt_pick(s, 121, 122));
        m.loads.push(SpaceLoads { id: uid(101), name: String::new(), area_per_person: 10.0, people_schedule: p1, people_sensible: 1.0, people_latent: 1.0, equipment: 1.0, equipment_schedule: e1, lighting: 1.0, lighting_schedule: g1 });
        let (x1, n1) = (opt_pick(s, 121, 122), opt_pick(s, 121, 122));
        m.thermostats.push(Thermostat { id: uid(111), name: String::new(), temp_max: x1, temp_min: n1 });
        let (ya, yb) = (pick(s, 131, 132), pick(s, 131, 132));
        m.schedules.year.push(Schedule { id: uid(121), name: String::new(), values: vec![(ya, 365)] });
        m.schedules.year.push(Schedule { id: uid(122), name: String::new(), values: vec![(yb, 365)] });
        let (wa, wb) = (pick(s, 141, 142), pick(s, 141, 142));
        m.schedules.week.push(ScheduleWeek { id: uid(131), name: String::new(), values: vec![(wa, 7)] });
        m.schedules.week.push(ScheduleWeek { id: uid(132), name: String::new(), values: vec![(wb, 7)] });
        m.schedules.day.push(ScheduleDay { id: uid(141), name: String::new(), values: Vec::new() });
        m.schedules.day.push(ScheduleDay { id: uid(142), name: String::new(), values: Vec::new() });
        let w1 = purge_unused(&mut m);
        let used_y = |id: u128| { let u = Some(uid(id)); p1 == u || e1 == u || g1 == u || x1 == u || n1 == u };
        let (k121, k122) = (used_y(121), used_y(122));
        let used_w = |id: u128| (k121 && ya == uid(id)) || (k122 && yb == uid(id));
        let (k131, k132) = (used_w(131), used_w(132));
        let used_d = |id: u128| (k131 && wa == uid(id)) || (k132 && wb == uid(id));
        let (ny, nw, nd) = (k121 as usize + k122 as usize, k131 as usize + k132 as usize, used_d(141) as usize + used_d(142) as usize);
        assert!(m.schedules.year.len() == ny, "C16:exactly the yearly schedules not used by remaining loads/thermostats are removed");
        assert!(m.schedules.week.len() == nw, "C16:exactly the weekly schedules not reachable are removed");
        assert!(m.schedules.day.len() == nd, "C16:exactly the daily schedules not reachable are removed");
        if ny == 1 { assert!(m.schedules.year[0].id.as_u128() == if k121 { 121 } else { 122 }, "C16:the used yearly schedule is kept"); }
        if nw == 1 { assert!(m.schedules.week[0].id.as_u128() == if k131 { 131 } else { 132 }, "C16:the reachable weekly schedule is kept"); }
        if nd == 1 { assert!(m.schedules.day[0].id.as_u128() == if used_d(141) { 141 } else { 142 }, "C16:the reachable daily schedule is kept"); }
        cover!(k121 && !k122 && k132 && !k131 && used_d(141) && !used_d(142), "chain year->week->day");
        cover!(ny == 0 && nw == 0 && nd == 0, "nothing used");
        let w2 = purge_unused(&mut m);
        assert!(m.schedules.year.len() == ny && m.schedules.week.len() == nw && m.schedules.day.len() == nd && m.loads.len() == 1 && m.thermostats.len() == 1, "C16:purging twice equals purging once");
        std::mem::forget(m);
        std::mem::forget((w1, w2));
    }
}
