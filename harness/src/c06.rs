//! C06 — opaque U-values (EN ISO 6946 / 13370 / 13789).
//! Decomposition (the all-in-one harness through Wall::u_value with symbolic numbers does not finish):
//!  * kernel harnesses: the numeric kernels on full-range symbolic f32, mirror oracle (same operation order);
//!  * dispatch harnesses: Wall::u_value(&Model) with concrete numbers and symbolic discrete choices.
use crate::common::*;
use bemodel::utils::{fround2, fround3};
use std::f32::consts::PI;
use bemodel::verif_hooks::HasSurface;

const RSE: f32 = 0.04;
fn rsi(t: Tilt) -> f32 {
    match t {
        Tilt::BOTTOM => 0.17,
        Tilt::TOP => 0.10,
        Tilt::SIDE => 0.13,
    }
}

pub fn wall(id: u128, bounds: BoundaryType, cons: u128, space: u128, next: Option<Uuid>, tilt: f32, poly: Vec<Point2>) -> Wall {
    Wall { id: uid(id), name: String::new(), bounds, cons: uid(cons), space: uid(space), next_to: next, geometry: WallGeom { tilt, azimuth: 0.0, position: None, polygon: poly } }
}
pub fn rect(w: f32, h: f32) -> Vec<Point2> {
    vec![point![0.0, 0.0], point![w, 0.0], point![w, h], point![0.0, h]]
}
pub fn space(id: u128, kind: SpaceType, inside: bool, height: f32, z: f32, n_v: Option<f32>) -> Space {
    Space { id: uid(id), name: String::new(), multiplier: 1.0, kind, inside_tenv: inside, height, z, loads: None, thermostat: None, n_v, illuminance: None }
}
fn any_tilt_deg<S: Src>(s: &mut S) -> f32 {
    match s.below(6) { 0 => 0.0, 1 => 60.0, 2 => 90.0, 3 => 120.0, 4 => 180.0, _ => 300.0 }
}
const LAMBDAS: [f32; 4] = [0.035, 0.4, 1.0, 2.3];

harnesses! {
    /// layer stack resistance: sum of e/lambda (detailed) and R (resistance-only); missing material or lambda <= 0 -> error
    #[kani::unwind(5)]
    #[kani::stub(alloc::fmt::format, crate::stubs::fmt_stub)]
    fn u_resistance(s) {
        let mut db = ConsDb::default();
        // material 1: detailed with lambda from a finite set (or non-positive), material 2: resistance-only
        let lam_ok = s.bool();
        let lam = if lam_ok { LAMBDAS[s.below(4) as usize] } else { if s.bool() { 0.0 } else { -1.0 } };
        let rr = s.g(15) * 0.25;
        db.materials.push(Material { id: uid(1), name: String::new(), properties: MatProps::Detailed { conductivity: lam, density: 1000.0, specific_heat: 1000.0, vapour_diff: None } });
        db.materials.push(Material { id: uid(2), name: String::new(), properties: MatProps::Resistance { resistance: rr, vapour_diff: None } });
        let n = s.below(4) as usize;
        let mut layers: Vec<Layer> = Vec::new();
        let mut kinds = [0u8; 3];
        let mut es = [0.0f32; 3];
        let mut i = 0;
        while i < n {
            kinds[i] = s.below(3); // 0 detailed, 1 resistance, 2 missing material
            es[i] = s.g(15) * 0.0625;
            layers.push(Layer { material: match kinds[i] { 0 => uid(1), 1 => uid(2), _ => uid(9) }, e: es[i] });
            i += 1;
        }
        let wc = WallCons { id: uid(3), name: String::new(), layers, absorptance: 0.6 };
        let got = wc.resistance(&db).ok();
        // reference: left-to-right sum starting from 0.0; first offending layer aborts
        let mut want = Some(0.0f32);
        let mut i = 0;
        while i < n {
            want = match (want, kinds[i]) {
                (Some(t), 0) => if lam_ok { Some(t + es[i] / lam) } else { None },
                (Some(t), 1) => Some(t + rr),
                _ => None,
            };
            i += 1;
        }
        cover!(n == 3 && want.is_some(), "three valid layers");
        cover!(n == 2 && want.is_none() && kinds[0] == 1, "second layer invalid");
        assert!(got == want, "C06:construction resistance = sum of layer resistances; none when a material is missing or lambda <= 0");
        std::mem::forget(db);
        std::mem::forget(wc);
    }

    /// air-contact kernel: U = fround2(1/(R + Rsi + 0.04)), Rsi by heat-flow direction (tilt class)
    #[kani::unwind(4)]
    #[kani::stub(alloc::fmt::format, crate::stubs::fmt_stub)]
    #[kani::stub(f32::round, crate::stubs::round_stub)]
    fn u_exterior_kernel(s) {
        let t = any_tilt_deg(s);
        let r = s.g(63) * 0.125;
        let has = s.bool();
        let w = wall(5, BoundaryType::EXTERIOR, 3, 9, None, t, Vec::new());
        let got = w.u_value_exterior(if has { Some(r) } else { None });
        let cls = if t <= 60.0 || t >= 300.0 { Tilt::TOP } else if t < 120.0 || (t >= 240.0) { Tilt::SIDE } else { Tilt::BOTTOM };
        cover!(has && cls == Tilt::BOTTOM, "floor");
        cover!(has && t == 60.0, "60 degrees is still a roof");
        if has {
            assert!(got == Some(fround2(1.0 / (r + rsi(cls) + RSE))), "C06:U = 1/(Rsi + R + Rse) to two decimals, Rsi by heat-flow direction");
        } else {
            assert!(got.is_none(), "C06:no U-value without a construction resistance");
        }
        std::mem::forget(w);
    }

    /// conditioned/unconditioned partition kernel: U = fround2(1/(Rf + Ai/(UA + 0.33*q)))
    #[kani::unwind(4)]
    #[kani::stub(alloc::fmt::format, crate::stubs::fmt_stub)]
    #[kani::stub(f32::round, crate::stubs::round_stub)]
    fn u_interior_kernel(s) {
        // Ai > 0: with Ai = 0 and no loss term at all the formula is 0/0 (outside the statement)
        let (ai, rf, ua, q) = (s.g(15) * 0.5 + 0.5, s.g(15) * 0.25, s.g(15) * 0.5, s.g(15) * 2.0);
        let w = wall(5, BoundaryType::INTERIOR, 3, 9, None, 90.0, Vec::new());
        let got = w.u_value_interior_cond_uncond(ai, rf, ua, q);
        cover!(ua > 0.0 && q > 0.0, "both loss terms present");
        assert!(got == Some(fround2(1.0 / (rf + ai / (ua + 0.33 * q)))), "C06:U = 1/(Rf + Ai/(sum(Ae*Ue) + 0.33*n*V))");
        std::mem::forget(w);
    }

    /// EN ISO 13370 slab-on-ground kernel (ln as an uninterpreted function)
    #[kani::unwind(4)]
    #[kani::stub(alloc::fmt::format, crate::stubs::fmt_stub)]
    #[kani::stub(f32::round, crate::stubs::round_stub)]
    #[kani::stub(f32::ln, crate::stubs::ln_bits_stub)]
    fn u_gnd_slab_kernel(s) {
        let (z, d_t, b, psi) = (s.g(7) * 0.5, s.g(15) * 0.25 + 0.25, s.g(15) * 0.5 + 0.5, -(s.g(7) * 0.125));
        let w = wall(5, BoundaryType::GROUND, 3, 9, None, 180.0, Vec::new());
        let got = w.verif_u_value_gnd_slab(z, d_t, b, psi);
        let bl = d_t + 0.5 * z;
        let ubf = if bl < b { (2.0 * 2.0 / (PI * b + bl)) * f32::ln(1.0 + PI * b / bl) } else { 2.0 / (0.457 * b + bl) };
        cover!(bl < b, "moderately insulated slab");
        cover!(!(bl < b), "well insulated slab");
        assert!(got == fround2(ubf + 2.0 * psi / b), "C06:slab on ground: 13370 (11)/(12) with d_t + z/2 against B', plus perimeter insulation term");
        std::mem::forget(w);
    }

    /// EN ISO 13370 basement-wall kernel: not buried, partly buried, fully buried
    #[kani::unwind(4)]
    #[kani::stub(alloc::fmt::format, crate::stubs::fmt_stub)]
    #[kani::stub(f32::round, crate::stubs::round_stub)]
    #[kani::stub(f32::ln, crate::stubs::ln_bits_stub)]
    fn u_gnd_wall_kernel(s) {
        let (z, uw, d_t, h) = (s.g(7) * 0.5, s.g(15) * 0.25 + 0.25, s.g(15) * 0.25 + 0.25, s.g(7) * 0.5 + 0.5);
        let w = wall(5, BoundaryType::GROUND, 3, 9, None, 90.0, Vec::new());
        let got = w.verif_u_value_gnd_wall(z, uw, d_t, h);
        let want = if z.abs() < 0.01 {
            uw
        } else {
            let d_w = 2.0 / uw;
            let ubw = if z.abs() < f32::EPSILON { uw } else {
                let dt = d_w.min(d_t);
                fround2((2.0 * 2.0 / (PI * z)) * (1.0 + 0.5 * dt / (dt + z)) * f32::ln(z / d_w + 1.0))
            };
            let hh = if h > z { h - z } else { 0.0 };
            if hh.abs() < f32::EPSILON { ubw } else { fround2((z * ubw + hh * uw) / h) }
        };
        cover!(z < 0.01, "not buried");
        cover!(z >= 0.01 && h > z, "partly buried");
        cover!(z >= 0.01 && h <= z, "fully buried");
        assert!(got == want, "C06:basement wall: 13370 (14) with burial depth, height-weighted with the exposed part");
        std::mem::forget(w);
    }

    /// equivalent thickness d_t (area-weighted over ground slabs) and perimeter-insulation psi
    #[kani::unwind(5)]
    #[kani::stub(alloc::fmt::format, crate::stubs::fmt_stub)]
    #[kani::stub(f32::round, crate::stubs::round_stub)]
    #[kani::stub(f32::ln, crate::stubs::ln_bits_stub)]
    fn u_gnd_dt_psi(s) {
        let mut m = Model::default();
        let rr = s.g(15) * 0.25;
        m.cons.materials.push(Material { id: uid(1), name: String::new(), properties: MatProps::Resistance { resistance: rr, vapour_diff: None } });
        m.cons.wallcons.push(WallCons { id: uid(3), name: String::new(), layers: vec![Layer { material: uid(1), e: 0.25 }], absorptance: 0.6 });
        m.spaces.push(space(9, SpaceType::CONDITIONED, true, 3.0, 0.0, None));
        let side = s.g(3) + 1.0;
        let cons_ok = s.bool();
        // one ground slab of the space (+ one that belongs to another space and one that is not a ground slab)
        m.walls.push(wall(20, BoundaryType::GROUND, 3, 8, None, 180.0, rect(7.0, 7.0)));
        m.walls.push(wall(21, BoundaryType::EXTERIOR, 3, 9, None, 180.0, rect(5.0, 5.0)));
        m.walls.push(wall(22, BoundaryType::GROUND, if cons_ok { 3 } else { 4 }, 9, None, 180.0, rect(side, side)));
        m.meta.rn_perim_insulation = s.g(7) * 0.5;
        m.meta.d_perim_insulation = s.g(7) * 0.25;
        let sp = m.get_space(uid(9)).unwrap();
        let d_t = sp.verif_slab_d_t(&m.walls, &m.cons);
        let a = side * side; // exact on the grid; Polygon::area is decided under C11
        let r = if cons_ok { 0.0 + rr } else { 0.0 };
        let e_tot = 0.0 + a * (0.3 + 2.0 * (0.17 + r + 0.04));
        cover!(cons_ok, "slab construction resolves");
        assert!(m.walls[2].geometry.polygon.area() == a, "C06:harness geometry");
        assert!(d_t == Some(e_tot / (0.0 + a)), "C06:equivalent thickness d_t = w + lambda*(Rsi + Rf + Rse), area-weighted over the space's ground slabs");
        let dd = s.g(15) * 0.25 + 0.25;
        let psi = sp.verif_slab_psi_gnd_ext(dd, &m);
        let d1 = m.meta.rn_perim_insulation * (2.0 - 0.035);
        let dw = m.meta.d_perim_insulation;
        assert!(psi == fround3(-2.0 / PI * (f32::ln(1.0 + dw / dd) - f32::ln(1.0 + dw / (dd + d1)))), "C06:perimeter insulation psi (13370 B.4)");
        std::mem::forget(m);
    }
}


pub mod dispatch {
use super::*;

/// concrete construction: detailed layer e=0.2, lambda=0.4 (R=0.5) + resistance layer R=1.25 -> R = 1.75, thickness 0.25
/// (absence of an item is modelled by giving it an id nobody refers to: a conditional push would make the
/// vector length symbolic, which bit-blasting does not survive)
fn cons(m: &mut Model, with_material: bool, lam: f32) {
    m.cons.materials.push(Material { id: if with_material { uid(1) } else { uid(91) }, name: String::new(), properties: MatProps::Detailed { conductivity: lam, density: 1000.0, specific_heat: 1000.0, vapour_diff: None } });
    m.cons.materials.push(Material { id: uid(2), name: String::new(), properties: MatProps::Resistance { resistance: 1.25, vapour_diff: None } });
    m.cons.wallcons.push(WallCons { id: uid(3), name: String::new(), layers: vec![Layer { material: uid(1), e: 0.2 }, Layer { material: uid(2), e: 0.05 }], absorptance: 0.6 });
}
const R: f32 = (0.0 + 0.2 / 0.4) + 1.25;

fn ground_case<S: Src>(s: &mut S, t: f32, cls: Tilt, has_space: bool, has_slab: bool) {
    let mut m = Model::default();
    cons(&mut m, true, 0.4);
    let z = s.gi(-3, 1);
    m.spaces.push(space(if has_space { 9 } else { 99 }, SpaceType::CONDITIONED, true, 3.0, z, None));
    m.meta.rn_perim_insulation = 1.5;
    m.meta.d_perim_insulation = 0.5;
    m.walls.push(wall(10, BoundaryType::GROUND, 3, 9, None, t, rect(4.0, 3.0)));
    m.walls.push(wall(11, BoundaryType::GROUND, 3, if has_slab { 9 } else { 98 }, None, 180.0, rect(4.0, 5.0)));
    m.walls.push(wall(12, BoundaryType::EXTERIOR, 3, 9, None, 90.0, rect(5.0, 3.0)));
    let w = &m.walls[0];
    let got = w.u_value(&m);
    let slab_exists = has_slab || cls == Tilt::BOTTOM;
    cover!(z < 0.0, "below ground level");
    cover!(z >= 0.0, "at or above ground level");
    if !has_space || !slab_exists {
        assert!(got.is_none(), "C06:ground element without space or without any ground slab in its space has no U-value");
    } else {
        let sp = &m.spaces[0];
        let u_w = w.u_value_exterior(Some(R)).unwrap();
        let depth = if z < 0.0 { -z } else { 0.0 };
        let want = match cls {
            Tilt::TOP => u_w,
            Tilt::BOTTOM => {
                let d_t = sp.verif_slab_d_t(&m.walls, &m.cons).unwrap();
                let psi = sp.verif_slab_psi_gnd_ext(d_t, &m);
                let b = sp.slab_char_dim(&m.walls, &m.spaces).unwrap_or_default();
                w.verif_u_value_gnd_slab(depth, d_t, b, psi)
            }
            Tilt::SIDE => {
                let d_t = sp.verif_slab_d_t(&m.walls, &m.cons).unwrap();
                let hn = sp.height_net(&m.walls, &m.cons);
                w.verif_u_value_gnd_wall(depth, u_w, d_t, hn)
            }
        };
        assert!(got == Some(want), "C06:ground contact: buried roof = air value; slab and basement-wall formulas with burial depth max(-z,0), d_t, B', psi, net height");
    }
    std::mem::forget(m);
}

fn tilt3<S: Src>(s: &mut S) -> (f32, Tilt) {
    match s.below(3) { 0 => (0.0, Tilt::TOP), 1 => (90.0, Tilt::SIDE), _ => (180.0, Tilt::BOTTOM) }
}

harnesses! {
    /// elements facing outside air and adiabatic ones; missing construction / material / lambda <= 0 / space
    #[kani::unwind(5)]
    #[kani::stub(alloc::fmt::format, crate::stubs::fmt_stub)]
    #[kani::stub(f32::round, crate::stubs::round_stub)]
    fn u_dispatch_air(s) {
        let mut m = Model::default();
        let has_mat = s.bool();
        let lam_ok = s.bool();
        cons(&mut m, has_mat, if lam_ok { 0.4 } else { 0.0 });
        let has_cons = s.bool();
        let bounds = any_bounds(s);
        let (t, cls) = tilt3(s);
        // GROUND / INTERIOR elements here refer to a space that does not exist
        let w = wall(5, bounds, if has_cons { 3 } else { 4 }, 9, None, t, rect(4.0, 3.0));
        let got = w.u_value(&m);
        let air = bounds == BoundaryType::EXTERIOR || bounds == BoundaryType::ADIABATIC;
        cover!(air && has_cons && has_mat && lam_ok && cls == Tilt::BOTTOM, "valid exterior floor");
        cover!(bounds == BoundaryType::GROUND, "ground element without space");
        if !has_cons || !has_mat || !lam_ok {
            assert!(got.is_none(), "C06:an element whose construction or material is missing has no U-value");
        } else if air {
            assert!(got == Some(fround2(1.0 / (R + rsi(cls) + RSE))), "C06:air-contact and adiabatic elements: 1/(Rsi + R + Rse), Rsi by heat-flow direction");
        } else {
            assert!(got.is_none(), "C06:ground/interior element whose space does not resolve has no U-value");
        }
        std::mem::forget(m);
        std::mem::forget(w);
    }

    /// partitions: which surface resistances, which space is the unconditioned one, which ventilation rate
    #[kani::unwind(6)]
    #[kani::stub(alloc::fmt::format, crate::stubs::fmt_stub)]
    #[kani::stub(f32::round, crate::stubs::round_stub)]
    fn u_dispatch_partition(s) {
        let mut m = Model::default();
        cons(&mut m, true, 0.4);
        let (k1, k2) = (any_kind(s), any_kind(s));
        let nv2 = if s.bool() { Some(0.5) } else { None };
        let nv1 = if s.bool() { Some(0.75) } else { None };
        m.meta.global_ventilation_l_s = if s.bool() { Some(30.0) } else { None };
        m.spaces.push(space(1, k1, true, 3.0, 0.0, nv1));
        m.spaces.push(space(2, k2, true, 2.5, 0.0, nv2));
        let (t, cls) = tilt3(s);
        let nxt = s.below(3); // 0 none, 1 space 2, 2 dangling
        // the partition first, then what bounds the two spaces: floors (adiabatic) and one exterior wall each
        m.walls.push(wall(10, BoundaryType::INTERIOR, 3, 1, match nxt { 0 => None, 1 => Some(uid(2)), _ => Some(uid(7)) }, t, rect(4.0, 2.0)));
        m.walls.push(wall(11, BoundaryType::ADIABATIC, 3, 1, None, 180.0, rect(4.0, 5.0)));
        m.walls.push(wall(12, BoundaryType::ADIABATIC, 3, 2, None, 180.0, rect(3.0, 5.0)));
        m.walls.push(wall(13, BoundaryType::EXTERIOR, 3, 1, None, 90.0, rect(4.0, 3.0)));
        m.walls.push(wall(14, BoundaryType::EXTERIOR, 3, 2, None, 90.0, rect(3.0, 2.5)));
        let w = &m.walls[0];
        let got = w.u_value(&m);
        let c1 = k1 == SpaceType::CONDITIONED;
        let c2 = k2 == SpaceType::CONDITIONED;
        cover!(nxt == 1 && c1 && !c2 && cls == Tilt::BOTTOM, "floor over an unconditioned space");
        cover!(nxt == 1 && !c1 && c2 && cls == Tilt::BOTTOM && nv1.is_none(), "unconditioned space above, building-wide ventilation");
        if nxt == 0 {
            assert!(got == Some(fround2(1.0 / (R + 2.0 * rsi(cls)))), "C06:partition without neighbour: 1/(R + 2*Rsi(direction))");
        } else if nxt == 2 {
            assert!(got.is_none(), "C06:partition whose adjacent space does not resolve has no U-value");
        } else if c1 != c2 {
            // heat flows from the conditioned to the unconditioned space
            let down = (c1 && cls == Tilt::BOTTOM) || (c2 && cls == Tilt::TOP);
            let up = (c1 && cls == Tilt::TOP) || (c2 && cls == Tilt::BOTTOM);
            let rf = R + 2.0 * (if down { 0.17 } else if up { 0.10 } else { 0.13 });
            let un = if c1 { &m.spaces[1] } else { &m.spaces[0] };
            let ua = un.verif_ua_of_external_and_ground_surfaces(&m);
            let n = match un.n_v { Some(n) => n, None => m.global_ventilation_rate() };
            let vol = un.area(&m.walls) * un.height_net(&m.walls, &m.cons);
            let want = w.u_value_interior_cond_uncond(w.area(), rf, ua, vol * n);
            assert!(got == want, "C06:conditioned/unconditioned partition: Rf by flow direction, sum(Ae*Ue) and n*V of the unconditioned space");
        } else {
            assert!(got.is_some(), "C06:partition between equally conditioned spaces has a U-value");
        }
        std::mem::forget(m);
    }

    /// sum(Ae*Ue) of a space: exterior and ground elements (own or adjacent side), net areas, plus their windows
    #[kani::unwind(6)]
    #[kani::stub(alloc::fmt::format, crate::stubs::fmt_stub)]
    #[kani::stub(f32::round, crate::stubs::round_stub)]
    fn u_ua_sum(s) {
        let mut m = Model::default();
        cons(&mut m, true, 0.4);
        m.cons.glasses.push(Glass { id: uid(31), name: String::new(), u_value: 2.0, g_gln: 0.5 });
        m.cons.frames.push(Frame { id: uid(32), name: String::new(), u_value: 4.0, absorptivity: 0.5 });
        let wincons_ok = s.bool();
        {
            m.cons.wincons.push(WinCons { id: if wincons_ok { uid(33) } else { uid(93) }, name: String::new(), glass: uid(31), frame: uid(32), f_f: 0.25, delta_u: 0.0, g_glshwi: None, c_100: 27.0 });
        }
        m.spaces.push(space(2, SpaceType::UNCONDITIONED, true, 2.5, 0.0, None));
        let b1 = any_bounds(s);
        let own = s.bool(); // the element belongs to the space, or is the other side's element next to it
        let has_cons = s.bool();
        m.walls.push(wall(14, b1, if has_cons { 3 } else { 4 }, if own { 2 } else { 1 }, if own { None } else { Some(uid(2)) }, 90.0, rect(3.0, 2.0)));
        m.walls.push(wall(15, BoundaryType::EXTERIOR, 3, 2, None, 0.0, rect(3.0, 5.0)));
        let has_win = s.bool();
        {
            m.windows.push(Window { id: uid(40), name: String::new(), cons: uid(33), wall: if has_win { uid(14) } else { uid(94) }, geometry: WinGeom { position: None, height: 1.0, width: 1.5, setback: 0.0 } });
        }
        let sp = &m.spaces[0];
        let got = sp.verif_ua_of_external_and_ground_surfaces(&m);
        // roof (wall 15): 15 m2 * U(roof)
        let u_roof = fround2(1.0 / (R + 0.10 + RSE));
        let u_side = fround2(1.0 / (R + 0.13 + RSE));
        let u_win = fround2((1.0 + 0.0 / 100.0) * (4.0 * 0.25 + 2.0 * (1.0 - 0.25)));
        let counted = (b1 == BoundaryType::EXTERIOR) && has_cons; // GROUND side wall needs a slab: none here -> no U -> skipped
        let mut want = 0.0f32;
        if counted {
            let a_net = fround2(6.0 - if has_win { 1.5 } else { 0.0 });
            let win_axu = if has_win && wincons_ok { 0.0 + 1.5 * u_win } else { 0.0 };
            want += a_net * u_side + win_axu;
        }
        want += fround2(15.0 - 0.0) * u_roof + 0.0;
        cover!(counted && has_win && wincons_ok && !own, "adjacent-side exterior wall with a window");
        cover!(b1 == BoundaryType::INTERIOR, "interior element is not counted");
        assert!(got == want, "C06:sum(Ae*Ue): exterior/ground elements with a U-value, net area, plus windows with a U-value");
        std::mem::forget(m);
    }

    /// ground contact, buried roof / slab / basement wall (one harness per tilt class keeps symbolic execution small)
    #[kani::unwind(6)]
    #[kani::stub(alloc::fmt::format, crate::stubs::fmt_stub)]
    #[kani::stub(f32::round, crate::stubs::round_stub)]
    #[kani::stub(f32::ln, crate::stubs::ln_bits_stub)]
    fn u_ground_top(s) { ground_case(s, 0.0, Tilt::TOP, true, true) }

    #[kani::unwind(6)]
    #[kani::stub(alloc::fmt::format, crate::stubs::fmt_stub)]
    #[kani::stub(f32::round, crate::stubs::round_stub)]
    #[kani::stub(f32::ln, crate::stubs::ln_bits_stub)]
    fn u_ground_slab(s) { ground_case(s, 180.0, Tilt::BOTTOM, true, true) }

    #[kani::unwind(6)]
    #[kani::stub(alloc::fmt::format, crate::stubs::fmt_stub)]
    #[kani::stub(f32::round, crate::stubs::round_stub)]
    #[kani::stub(f32::ln, crate::stubs::ln_bits_stub)]
    fn u_ground_wall(s) { ground_case(s, 90.0, Tilt::SIDE, true, true) }

    /// ground element whose space is missing, or whose space has no ground slab: no U-value
    #[kani::unwind(6)]
    #[kani::stub(alloc::fmt::format, crate::stubs::fmt_stub)]
    #[kani::stub(f32::round, crate::stubs::round_stub)]
    #[kani::stub(f32::ln, crate::stubs::ln_bits_stub)]
    fn u_ground_missing(s) {
        if s.bool() { ground_case(s, 90.0, Tilt::SIDE, false, true) } else { ground_case(s, 90.0, Tilt::SIDE, true, false) }
    }

    /// characteristic dimension B' = A / (P/2) with the exposed perimeter share
    #[kani::unwind(6)]
    #[kani::stub(alloc::fmt::format, crate::stubs::fmt_stub)]
    #[kani::stub(f32::round, crate::stubs::round_stub)]
    fn u_char_dim(s) {
        let mut m = Model::default();
        let (k1, k2) = (any_kind(s), any_kind(s));
        m.spaces.push(space(1, k1, true, 3.0, 0.0, None));
        m.spaces.push(space(2, k2, true, 3.0, 0.0, None));
        let (b1, b2) = (any_bounds(s), any_bounds(s));
        let nx = s.below(3);
        m.walls.push(wall(10, BoundaryType::GROUND, 3, 1, None, 180.0, rect(4.0, 5.0)));
        m.walls.push(wall(11, b1, 3, 1, match nx { 0 => None, 1 => Some(uid(2)), _ => Some(uid(7)) }, 90.0, rect(4.0, 3.0)));
        m.walls.push(wall(12, b2, 3, 1, None, 90.0, rect(5.0, 3.0)));
        let got = m.spaces[0].slab_char_dim(&m.walls, &m.spaces);
        let exposed1 = match b1 {
            BoundaryType::EXTERIOR | BoundaryType::GROUND => true,
            BoundaryType::INTERIOR => nx == 1 && k1 == SpaceType::CONDITIONED && k2 != SpaceType::CONDITIONED,
            BoundaryType::ADIABATIC => false,
        };
        let exposed2 = match b2 { BoundaryType::EXTERIOR | BoundaryType::GROUND => true, _ => false };
        let tot = (0.0 + 12.0) + 15.0;
        let ext = (0.0 + if exposed1 { 12.0 } else { 0.0 }) + if exposed2 { 15.0 } else { 0.0 };
        let p = fround2(18.0 * ext / tot);
        let p = if p > 0.01 { p } else { 0.01 };
        cover!(exposed1 && !exposed2, "only the first wall exposed");
        cover!(b1 == BoundaryType::INTERIOR && exposed1, "conditioned space next to an unconditioned one");
        assert!(got == Some(fround2(20.0 / (0.5 * p))), "C06:B' = A/(P/2), P = perimeter * exposed wall area / total wall area (at least 0.01)");
        std::mem::forget(m);
    }

    /// adding a layer or thickening one never increases U (air contact and plain partitions; grid k/4)
    #[kani::unwind(5)]
    #[kani::stub(alloc::fmt::format, crate::stubs::fmt_stub)]
    #[kani::stub(f32::round, crate::stubs::round_stub)]
    fn u_monotone(s) {
        let mut m = Model::default();
        let e1 = s.g(8) * 0.125;
        let de = s.g(8) * 0.125;
        let r2 = s.g(12) * 0.25;
        let lam = LAMBDAS[1 + s.below(3) as usize];
        m.cons.materials.push(Material { id: uid(1), name: String::new(), properties: MatProps::Detailed { conductivity: lam, density: 1000.0, specific_heat: 1000.0, vapour_diff: None } });
        m.cons.materials.push(Material { id: uid(2), name: String::new(), properties: MatProps::Resistance { resistance: r2, vapour_diff: None } });
        let extra = s.bool();
        m.cons.wallcons.push(WallCons { id: uid(3), name: String::new(), layers: vec![Layer { material: uid(1), e: e1 }], absorptance: 0.6 });
        m.cons.wallcons.push(WallCons { id: uid(4), name: String::new(), layers: if extra { vec![Layer { material: uid(1), e: e1 }, Layer { material: uid(2), e: 0.05 }] } else { vec![Layer { material: uid(1), e: e1 + de }] }, absorptance: 0.6 });
        let (t, _cls) = tilt3(s);
        let interior = s.bool();
        m.spaces.push(space(1, SpaceType::CONDITIONED, true, 3.0, 0.0, None));
        let b = if interior { BoundaryType::INTERIOR } else { BoundaryType::EXTERIOR };
        let wa = wall(10, b, 3, 1, None, t, rect(4.0, 3.0));
        let wb = wall(11, b, 4, 1, None, t, rect(4.0, 3.0));
        let (ua, ub) = (wa.u_value(&m).unwrap(), wb.u_value(&m).unwrap());
        cover!(extra && ub < ua, "extra layer lowers U");
        cover!(!extra && de > 0.0 && ub < ua, "thicker layer lowers U");
        assert!(ub <= ua, "C06:adding a layer or thickening one never increases the U-value");
        std::mem::forget(m);
        std::mem::forget((wa, wb));
    }
}
}
