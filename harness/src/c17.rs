//! C17 — schedules: calendar partition, weekday alignment, occupancy and load means.
use crate::common::*;
use bemodel::convert::verif_hooks::day_of_year;

pub const CUM: [u32; 13] = [0, 31, 59, 90, 120, 151, 181, 212, 243, 273, 304, 334, 365];
pub const MDAYS: [u32; 12] = [31, 28, 31, 30, 31, 30, 31, 31, 30, 31, 30, 31];

harnesses! {
    /// convert::day_of_year(d, m) equals the cumulative calendar for all 365 dates
    fn doy_calendar(s) {
        let m = s.u32();
        let d = s.u32();
        s.assume(m >= 1 && m <= 12);
        s.assume(d >= 1 && d <= MDAYS[(m - 1) as usize]);
        let n = day_of_year(d, m);
        cover!(m == 12 && d == 31, "31 Dec");
        cover!(m == 3 && d == 1, "1 Mar");
        assert!(n == CUM[(m - 1) as usize] + d, "C17:day_of_year = calendar");
    }
}

pub mod sched {
use super::*;

/// weekly schedule of two runs: c1 days of d1, then 7 - c1 days of d2
fn week(id: u128, d1: Uuid, d2: Uuid, c1: u32) -> ScheduleWeek {
    ScheduleWeek { id: uid(id), name: String::new(), values: vec![(d1, c1), (d2, 7 - c1)] }
}

/// Period lengths and run lengths are CONCRETE per call (vectors of symbolic length exhaust the solver:
/// `vec![id; count]` with a symbolic count did not finish in 600 s); which daily schedules the runs
/// refer to is symbolic.  Three periods, so that the weekday offset of a period depends on the SUM of
/// all earlier period lengths.
fn year_case<S: Src>(s: &mut S, n: [u32; 3], c: [u32; 2], third_week_missing: bool) {
    let pick = |s: &mut S| if s.bool() { uid(1) } else { uid(2) };
    let (a1, a2, b1, b2) = (pick(s), pick(s), pick(s), pick(s));
    let db = SchedulesDb {
        year: vec![Schedule { id: uid(20), name: String::new(), values: vec![(uid(10), n[0]), (uid(11), n[1]), (if third_week_missing { uid(99) } else { uid(10) }, n[2])] }],
        week: vec![week(10, a1, a2, c[0]), week(11, b1, b2, c[1])],
        day: Vec::new(),
    };
    let days = db.get_year_as_day_sch(uid(20));
    let total = n[0] + n[1] + if third_week_missing { 0 } else { n[2] };
    assert!(days.len() as u32 == total, "C17:a yearly schedule expands to as many days as its period lengths add up to");
    let mut i = 0u32;
    while i < total {
        let slot = i % 7; // year starts on a Monday: day i is weekday i mod 7
        let want = if i < n[0] { if slot < c[0] { a1 } else { a2 } } else if i < n[0] + n[1] { if slot < c[1] { b1 } else { b2 } } else { if slot < c[0] { a1 } else { a2 } };
        assert!(days[i as usize].as_u128() == want.as_u128(), "C17:day i takes weekday slot i mod 7 of the weekly schedule of its period");
        i += 1;
    }
    cover!(a1 != a2 && b1 != b2, "weekly schedules that differ across weekdays");
    std::mem::forget(db);
    std::mem::forget(days);
}

harnesses! {
    /// yearly schedule -> days, three periods (3, 2, 4 days) / weekly runs (2+5, 5+2)
    #[kani::unwind(12)]
    #[kani::stub(alloc::fmt::format, crate::stubs::fmt_stub)]
    fn year_as_days(s) {
        year_case(s, [3, 2, 4], [2, 5], false);
    }

    /// other period lengths: a period longer than a week, an empty period, a missing weekly schedule
    #[kani::unwind(12)]
    #[kani::stub(alloc::fmt::format, crate::stubs::fmt_stub)]
    fn year_as_days_b(s) {
        year_case(s, [8, 0, 2], [1, 6], false);
        year_case(s, [1, 3, 5], [3, 0], true);
    }

    /// weekly schedule -> runs covering the days given, in order
    #[kani::unwind(9)]
    fn week_to_days(s) {
        let (d1, d2) = (if s.bool() { uid(1) } else { uid(3) }, uid(2));
        let w0 = week(10, d1, d2, 3);
        let d = w0.to_day_sch();
        cover!(d1 == uid(3), "other id");
        assert!(d.len() == 7, "C17:weekly runs cover 7 days");
        let mut i = 0;
        while i < 7 {
            assert!(d[i].as_u128() == if i < 3 { d1.as_u128() } else { 2 }, "C17:weekly runs in order");
            i += 1;
        }
        let w1 = week(11, d1, d2, 0);
        assert!(w1.to_day_sch().len() == 7, "C17:an empty run contributes no day");
        std::mem::forget((w0, w1, d));
    }

    /// HULC end dates -> periods: the day counts derived from day_of_year partition the 365-day year exactly
    fn end_dates_partition(s) {
        // increasing list of 3 end dates, the last one 31 Dec (as in schedules_from_bdl: t = [0, doy(d1,m1), doy(d2,m2), 365])
        let (m1, d1, m2, d2) = (s.u32(), s.u32(), s.u32(), s.u32());
        s.assume(m1 >= 1 && m1 <= 12 && m2 >= 1 && m2 <= 12);
        s.assume(d1 >= 1 && d1 <= MDAYS[(m1 - 1) as usize] && d2 >= 1 && d2 <= MDAYS[(m2 - 1) as usize]);
        s.assume(m1 < m2 || (m1 == m2 && d1 < d2));
        s.assume(!(m2 == 12 && d2 == 31));
        let t = [0u32, day_of_year(d1, m1), day_of_year(d2, m2), day_of_year(31, 12)];
        cover!(m1 == 2 && d1 == 28 && m2 == 3 && d2 == 1, "28 Feb / 1 Mar");
        let (a, b, c) = (t[1] - t[0], t[2] - t[1], t[3] - t[2]);
        assert!(a >= 1 && b >= 1 && c >= 1, "C17:every period has at least one day");
        assert!(a + b + c == 365, "C17:end dates partition the 365-day year exactly");
        assert!(a == CUM[(m1 - 1) as usize] + d1, "C17:first period ends exactly at its end date");
    }
}
}
