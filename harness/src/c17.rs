//! C17 — schedules: calendar partition, weekday alignment, occupancy and load means.
use crate::common::*;
use bemodel::convert::verif_hooks::day_of_year;

pub const CUM: [u32; 13] = [0, 31, 59, 90, 120, 151, 181, 212, 243, 273, 304, 334, 365];
pub const MDAYS: [u32; 12] = [31, 28, 31, 30, 31, 30, 31, 31, 30, 31, 30, 31];

harnesses! {
    /// convert::day_of_year(d, m) equals the cumulative calendar for all 365 dates
    fn doy_calendar(s) {
        let m = s.u32();
        let d = s.u32();
        s.assume(m >= 1 && m <= 12);
        s.assume(d >= 1 && d <= MDAYS[(m - 1) as usize]);
        let n = day_of_year(d, m);
        cover!(m == 12 && d == 31, "31 Dec");
        cover!(m == 3 && d == 1, "1 Mar");
        assert!(n == CUM[(m - 1) as usize] + d, "C17:day_of_year = calendar");
    }
}
