//! C17 — schedules: calendar partition, weekday alignment, occupancy and load means.
use crate::common::*;
use bemodel::convert::verif_hooks::day_of_year;

pub const CUM: [u32; 13] = [0, 31, 59, 90, 120, 151, 181, 212, 243, 273, 304, 334, 365];
pub const MDAYS: [u32; 12] = [31, 28, 31, 30, 31, 30, 31, 31, 30, 31, 30, 31];

harnesses! {
    /// convert::day_of_year(d, m) equals the cumulative calendar for all 365 dates
    fn doy_calendar(s) {
        let m = s.u32();
        let d = s.u32();
        s.assume(m >= 1 && m <= 12);
        s.assume(d >= 1 && d <= MDAYS[(m - 1) as usize]);
        let n = day_of_year(d, m);
        cover!(m == 12 && d == 31, "31 Dec");
        cover!(m == 3 && d == 1, "1 Mar");
        assert!(n == CUM[(m - 1) as usize] + d, "C17:day_of_year = calendar");
    }
}

pub mod sched {
use super::*;

fn week(id: u128, d1: u128, d2: u128, c1: u32) -> ScheduleWeek {
    ScheduleWeek { id: uid(id), name: String::new(), values: vec![(uid(d1), c1), (uid(d2), 7 - c1)] }
}

harnesses! {
    /// yearly schedule -> days: as many days as the period lengths add up to; day i takes slot (i mod 7)
    /// of the weekly schedule of the period it falls in (year starts on a Monday)
    #[kani::unwind(9)]
    #[kani::stub(alloc::fmt::format, crate::stubs::fmt_stub)]
    fn year_as_days(s) {
        let c1 = s.u32();
        let c2 = s.u32();
        s.assume(c1 <= 7 && c2 <= 7);
        let (n1, n2) = (s.u32(), s.u32());
        s.assume(n1 <= 4 && n2 <= 4);
        let second_week_missing = s.bool();
        let db = SchedulesDb {
            year: vec![Schedule { id: uid(20), name: String::new(), values: vec![(uid(10), n1), (if second_week_missing { uid(99) } else { uid(11) }, n2)] }],
            week: vec![week(10, 1, 2, c1), week(11, 3, 4, c2)],
            day: Vec::new(),
        };
        let days = db.get_year_as_day_sch(uid(20));
        cover!(n1 == 4 && n2 == 4 && !second_week_missing, "eight days over two periods");
        cover!(n1 == 3 && c2 == 2 && n2 >= 1, "second period starts mid-week");
        if !second_week_missing {
            assert!(days.len() as u32 == n1 + n2, "C17:a yearly schedule expands to as many days as its period lengths add up to");
            let mut i = 0u32;
            while i < n1 + n2 {
                let slot = i % 7;
                let want = if i < n1 { if slot < c1 { 1 } else { 2 } } else { if slot < c2 { 3 } else { 4 } };
                assert!(days[i as usize].as_u128() == want, "C17:day i takes weekday slot i mod 7 of the weekly schedule of its period");
                i += 1;
            }
        } else {
            assert!(days.len() as u32 == n1, "C17:a period whose weekly schedule is missing contributes no days");
        }
        assert!(db.get_year_as_day_sch(uid(21)).is_empty(), "C17:unknown yearly schedule expands to nothing");
        std::mem::forget(db);
        std::mem::forget(days);
    }

    /// weekly schedule -> runs covering the count of days given
    #[kani::unwind(9)]
    fn week_to_days(s) {
        let c1 = s.u32();
        s.assume(c1 <= 7);
        let w = week(10, 1, 2, c1);
        let d = w.to_day_sch();
        cover!(c1 == 3, "3 + 4 split");
        assert!(d.len() == 7, "C17:weekly runs cover 7 days");
        let mut i = 0;
        while i < 7 {
            assert!(d[i].as_u128() == if (i as u32) < c1 { 1 } else { 2 }, "C17:weekly runs in order");
            i += 1;
        }
        std::mem::forget(w);
        std::mem::forget(d);
    }

    /// HULC end dates -> periods: the day counts derived from day_of_year partition the 365-day year exactly
    fn end_dates_partition(s) {
        // increasing list of 3 end dates, the last one 31 Dec (as in schedules_from_bdl: t = [0, doy(d1,m1), doy(d2,m2), 365])
        let (m1, d1, m2, d2) = (s.u32(), s.u32(), s.u32(), s.u32());
        s.assume(m1 >= 1 && m1 <= 12 && m2 >= 1 && m2 <= 12);
        s.assume(d1 >= 1 && d1 <= MDAYS[(m1 - 1) as usize] && d2 >= 1 && d2 <= MDAYS[(m2 - 1) as usize]);
        s.assume(m1 < m2 || (m1 == m2 && d1 < d2));
        s.assume(!(m2 == 12 && d2 == 31));
        let t = [0u32, day_of_year(d1, m1), day_of_year(d2, m2), day_of_year(31, 12)];
        cover!(m1 == 2 && d1 == 28 && m2 == 3 && d2 == 1, "28 Feb / 1 Mar");
        let (a, b, c) = (t[1] - t[0], t[2] - t[1], t[3] - t[2]);
        assert!(a >= 1 && b >= 1 && c >= 1, "C17:every period has at least one day");
        assert!(a + b + c == 365, "C17:end dates partition the 365-day year exactly");
        assert!(a == CUM[(m1 - 1) as usize] + d1, "C17:first period ends exactly at its end date");
    }
}
}
