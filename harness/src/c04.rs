//! C04 (partial) — "fields that are omitted when they hold their default load back as that default":
//! for every skip predicate P and the default D serde supplies on load, P(&v) => v == D for ALL values v
//! (f32: all 2^32 bit patterns).  The pairing field -> (P, D) is extracted from the #[serde(..)] attributes
//! of bemodel/src/types/*.rs by bin/serde_scan.py on every run; a field with a skip predicate and no
//! default is reported by that scan.  The text round trip (serde_json) is outside: std BTreeMap + float
//! printing/parsing are not executable symbolically.
use crate::common::*;
use bemodel::verif_hooks::*;

harnesses! {
    /// multiplier: skip_serializing_if = multiplier_is_1, default = default_1
    fn skip_multiplier(s) {
        let v = s.f32();
        cover!(multiplier_is_1(&v), "skipped value exists");
        if multiplier_is_1(&v) {
            assert!(v == default_1(), "C04:a multiplier omitted on save loads back equal");
            assert!(v.to_bits() == default_1().to_bits(), "C04:a multiplier omitted on save loads back bit-identical");
        }
    }

    /// inside_tenv: skip_serializing_if = is_true, default = default_true
    fn skip_true(s) {
        let v = s.bool();
        if is_true(&v) {
            assert!(v == default_true(), "C04:a flag omitted on save loads back equal");
        }
        cover!(!is_true(&v), "false is written");
    }

    /// f32 fields with skip_serializing_if = is_default and #[serde(default)] (z, l, psi)
    fn skip_default_f32(s) {
        let v = s.f32();
        cover!(is_default(&v) && v.is_sign_negative(), "-0.0 is skipped");
        if is_default(&v) {
            assert!(v == f32::default(), "C04:an f32 omitted on save loads back equal (-0.0 loads as +0.0: equal under ==)");
        }
    }

    /// enum fields with is_default + #[serde(default)]: SpaceType, ThermalBridgeKind
    fn skip_default_enums(s) {
        let k = any_kind(s);
        if is_default(&k) {
            assert!(k == SpaceType::default(), "C04:a space kind omitted on save loads back equal");
        }
        let (t, _) = crate::c08::any_tbkind(s);
        if is_default(&t) {
            assert!(t == ThermalBridgeKind::default(), "C04:a bridge kind omitted on save loads back equal");
        }
        cover!(!is_default(&k) && !is_default(&t), "non-default values are written");
    }

    /// container predicates: ConsDb / SchedulesDb / PropsOverrides ::is_empty => equal to Default (all parts empty)
    #[kani::unwind(4)]
    fn skip_empty_containers(s) {
        let mut db = ConsDb::default();
        let which = s.below(6);
        match which {
            0 => db.wallcons.push(WallCons { id: uid(1), name: String::new(), layers: Vec::new(), absorptance: 0.5 }),
            1 => db.wincons.push(WinCons { id: uid(1), name: String::new(), glass: uid(2), frame: uid(3), f_f: 0.25, delta_u: 0.0, g_glshwi: None, c_100: 27.0 }),
            2 => db.materials.push(Material { id: uid(1), name: String::new(), properties: MatProps::Resistance { resistance: 1.0, vapour_diff: None } }),
            3 => db.glasses.push(Glass { id: uid(1), name: String::new(), u_value: 1.0, g_gln: 0.5 }),
            4 => db.frames.push(Frame { id: uid(1), name: String::new(), u_value: 1.0, absorptivity: 0.5 }),
            _ => {}
        }
        assert!(consdb_is_empty(&db) == (which == 5), "C04:the construction database is omitted exactly when all five parts are empty");
        let mut sdb = SchedulesDb::default();
        let w2 = s.below(4);
        match w2 {
            0 => sdb.year.push(Schedule::default()),
            1 => sdb.week.push(ScheduleWeek::default()),
            2 => sdb.day.push(ScheduleDay::default()),
            _ => {}
        }
        assert!(schedulesdb_is_empty(&sdb) == (w2 == 3), "C04:the schedule database is omitted exactly when all three parts are empty");
        let mut ov = PropsOverrides::default();
        let w3 = s.below(3);
        match w3 {
            0 => { ov.walls.insert(uid(1), WallPropsOverrides { u_value: None }); }
            1 => { ov.windows.insert(uid(1), WinPropsOverrides { u_value: None, f_shobst: None }); }
            _ => {}
        }
        assert!(overrides_is_empty(&ov) == (w3 == 2), "C04:overrides are omitted exactly when both maps are empty");
        std::mem::forget((db, sdb, ov));
    }
}
