//! Native replay of a Kani counterexample / cover witness against the UNMODIFIED crates
//! (std containers, anyhow, real format!, real libm): compiled without cfg(kani).
//! usage: replay <harness> <json file with [[u8,...],...]>     (or `replay --list`)
//! prints one line:  REPLAY harness=<h> outcome=<ok|assume_failed|panic|unknown_harness> underflow=<n> msg=<...>
use std::panic;
use std::sync::Mutex;
use vharness::src::{AssumeFailed, BytesSrc};

static LAST: Mutex<String> = Mutex::new(String::new());

fn main() {
    let args: Vec<String> = std::env::args().collect();
    if args.len() == 2 && args[1] == "--list" {
        for (n, _) in vharness::registry() {
            println!("{}", n);
        }
        return;
    }
    if args.len() == 2 && args[1] == "--selftest" {
        // round_stub == f32::round for every bit pattern (NaN: both NaN)
        let mut bad = 0u64;
        let mut first: Option<u32> = None;
        let mut b: u64 = 0;
        while b <= u32::MAX as u64 {
            let x = f32::from_bits(b as u32);
            let (a, r) = (vharness::shared_stubs::round_stub(x), x.round());
            let same = if r.is_nan() { a.is_nan() } else { a.to_bits() == r.to_bits() };
            if !same {
                bad += 1;
                if first.is_none() { first = Some(b as u32); }
            }
            b += 1;
        }
        println!("SELFTEST round_stub vs f32::round over 2^32 bit patterns: mismatches={} first={:?}", bad, first);
        std::process::exit(if bad == 0 { 0 } else { 1 });
    }
    if args.len() < 3 {
        eprintln!("usage: replay <harness> <vals.json>");
        std::process::exit(3);
    }
    let name = args[1].rsplit("::").find(|p| *p != "proof").unwrap_or(&args[1]).to_string();
    let txt = std::fs::read_to_string(&args[2]).expect("read vals");
    let v: serde_json::Value = serde_json::from_str(&txt).expect("json");
    let arr = if v.is_array() { v.clone() } else { v["vals"].clone() };
    let vals: Vec<Vec<u8>> = arr
        .as_array()
        .expect("array")
        .iter()
        .map(|a| a.as_array().expect("inner").iter().map(|b| b.as_u64().unwrap() as u8).collect())
        .collect();
    let f = match vharness::registry().into_iter().find(|(n, _)| *n == name) {
        Some((_, f)) => f,
        None => {
            println!("REPLAY harness={} outcome=unknown_harness underflow=0 msg=", name);
            std::process::exit(3);
        }
    };
    panic::set_hook(Box::new(|info| {
        let loc = info.location().map(|l| format!("{}:{}", l.file(), l.line())).unwrap_or_default();
        let msg = if let Some(s) = info.payload().downcast_ref::<&str>() {
            s.to_string()
        } else if let Some(s) = info.payload().downcast_ref::<String>() {
            s.clone()
        } else if info.payload().downcast_ref::<AssumeFailed>().is_some() {
            "ASSUME".to_string()
        } else {
            "?".to_string()
        };
        *LAST.lock().unwrap() = format!("{} @ {}", msg.replace('\n', " "), loc);
    }));
    let mut src = BytesSrc::new(vals);
    let r = panic::catch_unwind(panic::AssertUnwindSafe(|| f(&mut src)));
    let uf = src.underflow;
    match r {
        Ok(()) => println!("REPLAY harness={} outcome=ok underflow={} msg=", name, uf),
        Err(e) => {
            if e.downcast_ref::<AssumeFailed>().is_some() {
                println!("REPLAY harness={} outcome=assume_failed underflow={} msg=", name, uf);
            } else {
                let m = LAST.lock().unwrap().clone();
                println!("REPLAY harness={} outcome=panic underflow={} msg={}", name, uf, m);
            }
        }
    }
}
