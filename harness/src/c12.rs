//! C12 (partial) — sunlit fraction of a horizontal skylight: candidate filtering, ray counting, bounds,
//! monotonicity.  Only tilt 0 / azimuth 0 poses (sin 0, cos 0 are exact in CBMC); the obstruction factor
//! itself (irradiance weighting over the July design hours) is outside.
use crate::common::*;
use crate::c06::{rect, wall};
use bemodel::energy::verif_hooks::Occluder;
use bemodel::energy::AABB;
use nalgebra::{IsometryMatrix3, Rotation3, Translation3};

/// horizontal rectangle [x0,x0+w] x [y0,y0+h] at height z, as an occluder (normal +z, pure translation)
fn occ(id: u128, linked: Option<Uuid>, x0: i32, y0: i32, w: i32, h: i32, z: i32) -> Occluder {
    Occluder {
        id: uid(id),
        linked_to_id: linked,
        normal: vector![0.0, 0.0, 1.0],
        trans_matrix: Some(IsometryMatrix3::from_parts(Translation3::new(-(x0 as f32), -(y0 as f32), -(z as f32)), Rotation3::identity())),
        polygon: rect(w as f32, h as f32),
        aabb: AABB::new(point![x0 as f32, y0 as f32, z as f32], point![(x0 + w) as f32, (y0 + h) as f32, z as f32]),
    }
}

harnesses! {
    /// sunlit fraction = 1 - (#origins whose ray meets a candidate obstacle)/N; candidates exclude the window's
    /// own wall and reveal shades of other windows; 1.0 without wall or position; 0.0 with the sun behind
    #[kani::unwind(10)]
    #[kani::stub(alloc::fmt::format, crate::stubs::fmt_stub)]
    fn sunlit_fraction_horizontal(s) {
        let mut m = Model::default();
        // element counts are concrete (symbolic vector lengths are not survivable); the missing-wall and
        // missing-position cases are decided in sunlit_fraction_missing
        let has_wall = true;
        let has_pos = true;
        let mut w = wall(10, BoundaryType::EXTERIOR, 9, 1, None, 0.0, rect(4.0, 4.0));
        w.geometry.position = if has_pos { Some(point![0.0, 0.0, 0.0]) } else { None };
        if has_wall { m.walls.push(w); }
        let win = Window { id: uid(40), name: String::new(), cons: uid(8), wall: uid(10), geometry: WinGeom { position: Some(point![1.0, 1.0]), height: 2.0, width: 2.0, setback: 0.0 } };
        // obstacles: a free shade, one that carries the wall's own id, one linked to another window, one linked to this window
        let (x1, y1, z1) = (s.int(-2, 3), s.int(-2, 3), s.int(1, 3));
        let (x2, y2, z2) = (s.int(-2, 3), s.int(-2, 3), s.int(1, 3));
        let kind2 = s.below(4);
        let n_occ = 2;
        let mut occs: Vec<Occluder> = Vec::new();
        if n_occ >= 1 { occs.push(occ(60, None, x1, y1, 2, 2, z1)); }
        if n_occ >= 2 {
            let (id, link) = match kind2 { 0 => (61, None), 1 => (10, None), 2 => (62, Some(uid(41))), _ => (63, Some(uid(40))) };
            occs.push(occ(id, link, x2, y2, 2, 2, z2));
        }
        // two ray origins on the window plane (half-integer coordinates: never on an outline), sun direction on the grid
        let o = [point![1.5f32, 1.5, 0.0], point![2.5f32, 2.5, 0.0]];
        let (dx, dy) = (s.int(-1, 1), s.int(-1, 1));
        let dz = match s.below(3) { 0 => -1, 1 => 0, _ => 1 };
        let dir = vector![dx as f32, dy as f32, dz as f32];
        s.assume(dx != 0 || dy != 0 || dz != 0);
        let got = m.sunlit_fraction(&win, &o, &dir, &occs);
        // reference
        let want = if !has_wall || !has_pos {
            1.0
        } else if dz <= 0 {
            0.0 // normal (0,0,1) . dir < 0.01
        } else {
            let mut hits = 0;
            let mut k = 0;
            while k < 2 {
                // origin (ox2/2, oy2/2, 0); crossing the plane z at t = z (dz = 1): point = o + z*(dx,dy)
                let (ox2, oy2) = if k == 0 { (3, 3) } else { (5, 5) };
                let mut blocked = false;
                if n_occ >= 1 {
                    let (px2, py2) = (ox2 + 2 * z1 * dx, oy2 + 2 * z1 * dy);
                    blocked = blocked || (px2 > 2 * x1 && px2 < 2 * (x1 + 2) && py2 > 2 * y1 && py2 < 2 * (y1 + 2));
                }
                if n_occ >= 2 && (kind2 == 0 || kind2 == 3) {
                    let (px2, py2) = (ox2 + 2 * z2 * dx, oy2 + 2 * z2 * dy);
                    blocked = blocked || (px2 > 2 * x2 && px2 < 2 * (x2 + 2) && py2 > 2 * y2 && py2 < 2 * (y2 + 2));
                }
                if blocked { hits += 1; }
                k += 1;
            }
            1.0 - hits as f32 / 2.0
        };
        cover!(has_wall && has_pos && dz > 0 && got == 0.5, "half of the window shaded");
        cover!(has_wall && has_pos && dz > 0 && n_occ == 2 && kind2 == 1, "an obstacle with the wall's own id is ignored");
        assert!(got >= 0.0 && got <= 1.0, "C12:sunlit fraction lies in [0,1]");
        assert!(got == want, "C12:sunlit fraction = share of sample points whose ray towards the sun meets no candidate obstacle");
        std::mem::forget((m, occs));
    }

    /// 1.0 when the window's wall is missing or has no geometric position
    #[kani::unwind(10)]
    #[kani::stub(alloc::fmt::format, crate::stubs::fmt_stub)]
    fn sunlit_fraction_missing(s) {
        let mut m = Model::default();
        let has_pos = s.bool();
        let wall_ok = s.bool();
        let mut w = wall(10, BoundaryType::EXTERIOR, 9, 1, None, 0.0, rect(4.0, 4.0));
        w.geometry.position = if has_pos { Some(point![0.0, 0.0, 0.0]) } else { None };
        m.walls.push(w);
        let win = Window { id: uid(40), name: String::new(), cons: uid(8), wall: if wall_ok { uid(10) } else { uid(11) }, geometry: WinGeom { position: Some(point![1.0, 1.0]), height: 2.0, width: 2.0, setback: 0.0 } };
        let occs: Vec<Occluder> = Vec::new();
        let o = [point![1.5f32, 1.5, 0.0]];
        let dz = if s.bool() { 1.0 } else { -1.0 };
        let got = m.sunlit_fraction(&win, &o, &vector![0.0, 0.0, dz], &occs);
        cover!(!wall_ok, "window without wall");
        cover!(wall_ok && has_pos && dz < 0.0, "sun behind the window");
        let want = if !wall_ok || !has_pos { 1.0 } else if dz < 0.0 { 0.0 } else { 1.0 };
        assert!(got == want, "C12:1 without wall or position; 0 with the sun behind; 1 when nothing can hide the window");
        std::mem::forget((m, occs));
    }
}
