//! Shared builders.
pub use bemodel::*;
#[cfg(kani)]
pub use bemodel::kani_models::{BTreeMap, HashMap};
#[cfg(not(kani))]
pub use std::collections::{BTreeMap, HashMap};

pub use crate::src::Src;

pub fn uid(n: u128) -> Uuid {
    Uuid::from_u128(n)
}

pub fn any_bounds<S: Src>(s: &mut S) -> BoundaryType {
    match s.below(4) {
        0 => BoundaryType::EXTERIOR,
        1 => BoundaryType::INTERIOR,
        2 => BoundaryType::GROUND,
        _ => BoundaryType::ADIABATIC,
    }
}

pub fn any_tilt<S: Src>(s: &mut S) -> Tilt {
    match s.below(3) {
        0 => Tilt::TOP,
        1 => Tilt::SIDE,
        _ => Tilt::BOTTOM,
    }
}

pub fn any_kind<S: Src>(s: &mut S) -> SpaceType {
    match s.below(3) {
        0 => SpaceType::CONDITIONED,
        1 => SpaceType::UNCONDITIONED,
        _ => SpaceType::UNINHABITED,
    }
}
