//! `harnesses!` defines, for each entry, the generic body `fn name<S: Src>(s: &mut S)`, the Kani
//! proof wrapper `name::proof` (cfg(kani) only, carrying the attributes given), and the native
//! replay registry `REG`.

#[macro_export]
macro_rules! harnesses {
    ($( $(#[$attr:meta])* fn $name:ident($s:ident) $body:block )*) => {
        $(
            #[allow(unused_variables, unused_mut)]
            pub fn $name<S: $crate::src::Src>($s: &mut S) $body

            #[cfg(kani)]
            pub mod $name {
                #[allow(unused_imports)]
                use super::*;
                #[kani::proof]
                $(#[$attr])*
                pub fn proof() {
                    super::$name(&mut $crate::src::KaniSrc)
                }
            }
        )*
        pub const REG: &[(&str, $crate::NativeFn)] = &[
            $( (stringify!($name), $name::<$crate::src::BytesSrc>) ),*
        ];
    };
}

/// Reachability witness: under Kani a `kani::cover!`, natively a no-op.
#[macro_export]
macro_rules! cover {
    ($c:expr, $m:expr) => {{
        #[cfg(kani)]
        kani::cover!($c, $m);
        #[cfg(not(kani))]
        {
            let _ = $c;
        }
    }};
}
