//! C09 — n50: DB-HE air-permeability formula (N50Data::from(&EnergyProps)).
use crate::common::*;
use crate::c08::{any_wallprops, any_winprops, props0};
use bemodel::energy::verif_hooks::*;

/// Integer oracle.  areas {0..3}, multipliers {1,2}, C_h in {0..3} (or 100 when the window's
/// construction is absent), C_o in {16,29}, V in {0..3}.
pub fn n50_case<S: Src>(s: &mut S, nwalls: usize, nwins: usize) {
    let mut p = props0();
    let co = if s.bool() { 16 } else { 29 };
    p.global.c_o_100 = co as f32;
    let v = s.int(0, 3);
    p.global.vol_env_net = v as f32;
    let has_test = s.bool();
    let test = s.g(3);
    p.global.n_50_test_ach = if has_test { Some(test) } else { None };
    // one window construction (id 300) that may or may not exist
    let cons_present = s.bool();
    let ch = s.int(0, 3);
    if cons_present {
        p.wincons.insert(uid(300), WinConsProps { g_glwi: 0.5, g_glshwi: 0.5, u_value: None, c_100: ch as f32, f_f: 0.25 });
    }
    let mut walls: Vec<WallProps> = Vec::new();
    let mut i = 0;
    while i < nwalls {
        walls.push(any_wallprops(s));
        i += 1;
    }
    let mut wins: Vec<WinProps> = Vec::new();
    let mut j = 0;
    while j < nwins {
        let l = s.below(nwalls as u8 + 1) as usize;
        let wid = if l < nwalls { uid(1 + l as u128) } else { uid(77) };
        let mut wp = any_winprops(s, wid);
        // a second construction id that never exists
        wp.cons = if s.bool() { uid(300) } else { uid(301) };
        wins.push(wp);
        j += 1;
    }
    let (mut ao, mut ah, mut ahch) = (0i32, 0i32, 0i32);
    let mut i = 0;
    while i < nwalls {
        let w = &walls[i];
        if w.is_tenv && w.bounds == BoundaryType::EXTERIOR {
            let m = w.multiplier as i32;
            ao += m * w.area_net as i32;
            let mut j = 0;
            while j < nwins {
                let wi = &wins[j];
                if wi.wall == uid(1 + i as u128) {
                    let c = if cons_present && wi.cons == uid(300) { ch } else { 100 };
                    ah += m * wi.area as i32;
                    ahch += m * (wi.area as i32) * c;
                }
                j += 1;
            }
        }
        i += 1;
    }
    let mut i = 0;
    while i < nwalls {
        p.walls.insert(uid(1 + i as u128), walls[i].clone());
        i += 1;
    }
    let mut j = 0;
    while j < nwins {
        p.windows.insert(uid(11 + j as u128), wins[j].clone());
        j += 1;
    }

    let d = N50Data::from(&p);

    cover!(ao > 0 && ah > 0, "wall and window counted");
    cover!(ahch >= 100, "a window without construction uses 100");
    cover!(has_test && ao > 0 && v > 0, "blower-door value with walls");
    assert!(d.vol == v as f32, "C09:V is the net envelope volume");
    assert!(d.walls_a == ao as f32, "C09:Ao = net opaque area of exterior envelope elements (with multipliers)");
    assert!(d.windows_a == ah as f32, "C09:Ah = window area of those elements");
    assert!(d.windows_c_a == ahch as f32, "C09:sum Ch*Ah (100 without construction)");
    assert!(d.walls_c_ref == co as f32, "C09:reference wall permeability is Co");
    assert!(d.walls_c_a_ref == (ao * co) as f32, "C09:Co*Ao");
    if ah > 0 {
        assert!(d.windows_c == ahch as f32 / ah as f32, "C09:mean window permeability");
    }
    let n50_ref = if v > 0 { 0.629 * ((ao * co + ahch) as f32) / v as f32 } else { 0.0 };
    assert!(d.n50_ref == n50_ref, "C09:n50_ref = 0.629*(Co*Ao + sum Ch*Ah)/V, 0 when V = 0");
    if has_test {
        assert!(d.n50 == test, "C09:with a test value n50 is the test value");
        if ao > 0 {
            let wc = ((test * v as f32) / 0.629 - ahch as f32) / ao as f32;
            assert!(d.walls_c == wc, "C09:wall permeability solves the same equation for the test value");
            assert!(d.walls_c_a == ao as f32 * wc, "C09:Co*Ao with the solved permeability");
        } else {
            assert!(d.walls_c == co as f32, "C09:without wall area the permeability is Co");
        }
    } else {
        assert!(d.n50 == n50_ref, "C09:without test value n50 is the reference value");
        assert!(d.walls_c == co as f32 && d.walls_c_a == (ao * co) as f32, "C09:without test value the wall permeability is Co");
    }
    std::mem::forget(p);
    std::mem::forget(walls);
    std::mem::forget(wins);
}

harnesses! {
    #[kani::unwind(4)]
    #[kani::stub(alloc::fmt::format, crate::stubs::fmt_stub)]
    fn n50_11(s) { n50_case(s, 1, 1) }

    #[kani::unwind(5)]
    #[kani::stub(alloc::fmt::format, crate::stubs::fmt_stub)]
    fn n50_22(s) { n50_case(s, 2, 2) }
}
