DEFAULT_TEXT = ("Bounded model checking: the property's clauses are assertions in Kani harnesses that call the real functions "
                "with symbolic inputs; CBMC decides them for every input inside the stated bound (bounds, stubs and what lies "
                "outside are in the evidence file and DESIGN.md). Not a proof beyond the bound.")
DEFAULT_NOTE = ("Trusted: rustc->MIR->Kani codegen, CBMC float and memory model, CaDiCaL; under cfg(kani) std maps/sets and anyhow::Error "
                "are replaced by Vec-backed look-alikes (bemodel/src/kani_models.rs) and format!/round/ln are stubbed where listed; "
                "counterexamples are reported only after native replay against the unmodified crates.")

HOOKS = {
    "guard": "cfg(kani) (container/error model switches) and cfg(any(kani, verif_hooks)) (re-exports of crate-private items)",
    "enable": "cargo kani sets --cfg kani itself; the native replayer is built with RUSTFLAGS='--cfg verif_hooks'",
    "baseline_off_cmd": "cd /repo && cargo test --workspace --no-fail-fast --offline",
    "source_commits": ["6a5f543", "a30e7f4"],
    "fix_commits": ["8964a4c", "7774dd1", "c5a8780", "96afd96", "68fff19", "4101a4e", "d2633a0"],
    "add_only": True,
}

PARTIAL = ("Partial claim: only the clauses listed in DESIGN.md section 3 for this property are decided; the undecided clauses are listed under "
           "coverage.outside_the_bound in the evidence file. ")
PER_PROPERTY = {
    "C03": {"text": PARTIAL + DEFAULT_TEXT},
    "C04": {"text": PARTIAL + DEFAULT_TEXT, "technique": "obligations generated from the #[serde] attributes of the current source (bin/serde_scan.py), each skip-predicate/default pair decided for all values by a Kani/CBMC harness"},
    "C13": {"text": PARTIAL + DEFAULT_TEXT},
    "C17": {"text": PARTIAL + DEFAULT_TEXT},
    "C19": {"text": PARTIAL + DEFAULT_TEXT},
    "C20": {"text": PARTIAL + DEFAULT_TEXT},
}

NOT_APPLICABLE = [
    {"property_id": "C01", "reason": "process-level statement (exit status, stdout bytes, files) through globbing, Latin-1/gzip decoding, XML and env_logger: no symbolic input can be pushed through it; a Kani run on one concrete directory would be a concrete run, not a solver verdict"},
    {"property_id": "C02", "reason": "referential closure of converted models lives in string-keyed maps of parsed names and md5-of-Debug ids; format!+md5+string maps cannot be executed symbolically and modelling them away leaves none of the mechanism"},
    {"property_id": "C05", "reason": "byte-identical output across processes and 16 threads and md5-derived ids: Kani has no concurrency or processes, and the id function is md5 of Debug text"},
    {"property_id": "C12", "reason": "the factor itself is trigonometry + irradiance weighting (not interpretable by CBMC); the one trig-free piece, Model::sunlit_fraction on a horizontal skylight, goes through BVH + Occluder + nalgebra isometries: the smallest scene (no obstacles, one ray) is proved but takes 30 min, a 2-obstacle scene had no verdict in 90 min at 40 GB - no check that can run on every change, and the decidable clause is marginal (harnesses kept unregistered in harness/src/c12.rs, runnable with VERIF_EXPERIMENTAL=1)"},
    {"property_id": "C16", "reason": "purge_unused: symbolic execution does not finish (monolithic harness 15 min, five per-collection-group harnesses 20 min each): ten sub-purges of flat_map/flatten/cloned/filter/collect chains over vectors whose lengths become symbolic, Uuid memcmp in every HashSet operation; a bound small enough to finish would drop the chain/ordering clauses the statement is about"},
    {"property_id": "C18", "reason": "line/quote slicing parsers over String (replace, lines, split, trim, parse::<f32>): measured, 5 symbolic bytes through extract_u32vec do not finish in 10 minutes; no reachable bound says anything about documents"},
]

NOTES = ("Technique family: solver-based checking of the real code (Kani/CBMC). Exit codes of bin/check: 0 held, 1 violation reproduced natively, "
         "2 inconclusive (never reported as pass). See DESIGN.md.")
