"""Harness table: which Kani harnesses decide which property, with bounds and solver arguments.
tier 'quick' harnesses run in both tiers; tier 'thorough' only in the thorough tier."""

NOOVF = ["--no-overflow-checks"]  # CBMC's float NaN/overflow instrumentation off; Rust's integer-overflow asserts stay on
MEMCMP17 = ["--unwindset", "memcmp.0:17"]

CHECKS = {}

CHECKS["C11"] = {
    "title": "reference area, volumes, compactness, envelope membership, classifiers",
    "outside": [],
    "harnesses": [
        {"name": "c11::classify_tilt", "witness": True, "bound": "every f32 in [-720,1080]; within 1e-3 deg of a sector boundary either neighbouring class is accepted, except at the (exactly representable) boundary value itself",
         "functions": ["bemodel::Tilt::from(f32)", "bemodel::utils::normalize"]},
        {"name": "c11::classify_orientation", "witness": True, "bound": "every f32 in [-720,1080]; within 1e-3 deg of a sector boundary either neighbouring class is accepted, except at the (exactly representable) boundary value itself",
         "functions": ["bemodel::Orientation::from(f32)", "bemodel::utils::normalize"]},
        {"name": "c11::tilt_parser_vs_model", "witness": True, "bound": "every f32 in [0,360]",
         "functions": ["hulc::bdl::Wall::position", "bemodel::Tilt::from(f32)"]},
        {"name": "c11::wall_orientation", "witness": True, "bound": "every pair of f32 in [-720,1080]^2",
         "functions": ["bemodel::Orientation::from(&Wall)", "bemodel::Tilt::from(&Wall)"]},
    ],
}

CHECKS["C17"] = {
    "title": "schedules",
    "harnesses": [
        {"name": "c17::doy_calendar", "witness": True, "bound": "all 365 (day, month) pairs of a non-leap year",
         "functions": ["bemodel::convert::from_ctehexml::day_of_year"]},
    ],
}

CHECKS["C20"] = {
    "title": "solar geometry, radiation identities, tables (trig-free clauses)",
    "harnesses": [
        {"name": "c20::nday_calendar", "witness": True, "bound": "all 365 (month, day) pairs of a non-leap year",
         "functions": ["climate::solar::nday_from_md"]},
    ],
}

FS = ["--max-field-sensitivity-array-size", "256"]
FS2K = ["--max-field-sensitivity-array-size", "2048"]  # Vec<Wall>/Vec<Space> buffers (4-8 elements of 100-140 bytes) stay field-sensitive  # heap objects up to 256 bytes stay field-sensitive (constant propagation through Vec/Box)

CHECKS["C13"] = {
    "title": "ray casting: accelerated = exhaustive; exact geometry",
    "outside": [
        "accelerated == exhaustive for trees with inner nodes (generate_node_list / multi-level build_from_node_list / traversal of inner nodes): symbolic execution of BVH::build with 2 elements and max=1 did not finish in 500 s even with concrete boxes; termination IS decided, through the one-step partition lemma for nodes of 2 and 3 elements",
        "polygons with more than 3 corners through point_in_poly; poses with non-zero tilt/azimuth (sin/cos are not interpreted by CBMC)",
        "off-grid coordinates; rays whose origin lies exactly on a slab face with a zero direction component (0*inf = NaN)",
    ],
    "harnesses": [
        {"name": "c13::bvh_leaf0", "bound": "empty obstacle set, ray origin on integer grid [-6,6]^3, direction components in {-1,-1/2,0,1/2,1}", "kani_args": NOOVF, "cbmc_args": FS2K,
         "functions": ["BVH::build", "BVH::generate_node_list", "BVH::build_from_node_list", "BVH::intersects", "PreorderIter::next"]},
        {"name": "c13::bvh_leaf1", "bound": "1 box with integer corners (min in [-4,4]^3, size 1..2), ray as above; max_num_elements=30 (single leaf)", "kani_args": NOOVF, "cbmc_args": FS2K,
         "timeout_quick": 900, "functions": ["BVH::build", "BVH::intersects", "AABB::intersects", "<[T] as Bounded>::aabb", "PreorderIter::next"]},
        {"name": "c13::bvh_leaf2", "tier": "thorough", "bound": "2 boxes, same grids, single leaf", "kani_args": NOOVF, "cbmc_args": FS2K,
         "functions": ["BVH::build", "BVH::intersects", "AABB::intersects", "AABB::join", "PreorderIter::next"]},
        {"name": "c13p::partition_progress_2", "bound": "2 boxes with integer centres in [-2,2]^3 (coinciding centres included) and half-sizes {1,2}", "kani_args": NOOVF, "cbmc_args": FS2K,
         "functions": ["BVH::partition_elements_by_centroid"]},
        {"name": "c13p::partition_progress_3", "bound": "3 boxes, same grid", "kani_args": NOOVF, "cbmc_args": FS2K, "timeout_quick": 1200,
         "functions": ["BVH::partition_elements_by_centroid"]},
        {"name": "c13::geo::aabb_slab", "witness": True, "bound": "box corners integers in [-4,7], origin integers in [-6,6]^3, doubled direction in {-2..2}^3 minus 0", "kani_args": NOOVF,
         "functions": ["AABB::intersects"]},
        {"name": "c13::geo::aabb_join_monotone", "bound": "2 grid boxes, grid ray", "kani_args": NOOVF, "cbmc_args": FS2K,
         "functions": ["AABB::intersects", "AABB::join", "<[T] as Bounded>::aabb"]},
        {"name": "c13::geo::aabb_join_bounds", "bound": "0..3 boxes, every finite f32 corner", "kani_args": NOOVF, "cbmc_args": FS2K,
         "functions": ["AABB::join", "<[T] as Bounded>::aabb"]},
        {"name": "c13::geo::wallgeom_aabb", "bound": "quadrilateral with integer vertices in [-4,4]^2 (any order), translation in [-3,3]^3, tilt 0 / azimuth 0", "kani_args": NOOVF, "cbmc_args": FS2K, "timeout_quick": 900,
         "functions": ["<WallGeom as Bounded>::aabb", "WallGeom::to_global_coords_matrix"]},
        {"name": "c13::geo::pip_exact_tri", "bound": "triangles (both windings) with integer vertices in [-4,4]^2, points at half-integers", "kani_args": NOOVF, "cbmc_args": FS2K,
         "timeout_quick": 900, "functions": ["ray::point_in_poly", "Ray::intersects_with_data"]},
        {"name": "c13::geo::ray_plane", "bound": "rectangle w,h in 1..4, translation in [-3,3]^3, both vertex orders, origin in [-6,6]^3, direction in {-2..2}^2 x {-2,-1,0,1,2}", "kani_args": NOOVF, "cbmc_args": FS2K,
         "timeout_quick": 900, "functions": ["Ray::intersects_with_data", "ray::point_in_poly", "Polygon::normal"]},
    ],
}

FMT = ["alloc::fmt::format -> empty String (message texts are outside the claim)"]
GRIDK = "U and areas on the integer grid {0..3}, multipliers {1,2}, bridge length and psi in {-1..2}; reference in i32"

CHECKS["C08"] = {
    "title": "K is the area-weighted mean transmittance of the thermal envelope",
    "outside": ["more than 2 walls / 2 windows / 2 bridges", "off-grid values except in k_default_u (mirror form)", "net areas themselves (Wall::area_net is decided under C11)"],
    "harnesses": [
        {"name": "c08::k_formula_111", "bound": "1 wall + 1 window + 1 bridge; " + GRIDK, "kani_args": NOOVF, "cbmc_args": FS2K, "stubs": FMT,
         "functions": ["KData::from(&EnergyProps)"]},
        {"name": "c08::k_default_u", "bound": "1 wall + 1 window, areas in {0..7}, U in {k/4, k<=15}, multiplier {1,2}, presence of computed/override symbolic (mirror form: 5.7 is not dyadic)", "kani_args": NOOVF, "cbmc_args": FS2K, "stubs": FMT,
         "functions": ["KData::from(&EnergyProps)"]},
        {"name": "c08::k_formula_211", "tier": "thorough", "bound": "2 walls + 1 window + 1 bridge; " + GRIDK, "kani_args": NOOVF, "cbmc_args": FS2K, "stubs": FMT,
         "functions": ["KData::from(&EnergyProps)"]},
        {"name": "c08::k_permutation", "tier": "thorough", "bound": "2 walls + 1 window under two id assignments; " + GRIDK, "kani_args": NOOVF, "cbmc_args": FS2K, "stubs": FMT,
         "functions": ["KData::from(&EnergyProps)"]},
        {"name": "c08::k_formula_222", "tier": "thorough", "mem_gb": 40, "timeout_thorough": 2700, "bound": "2 walls + 2 windows + 2 bridges; " + GRIDK, "kani_args": NOOVF, "cbmc_args": FS2K, "stubs": FMT,
         "functions": ["KData::from(&EnergyProps)"]},
    ],
}

CHECKS["C09"] = {
    "title": "n50 follows the DB-HE air-permeability formula",
    "outside": ["more than 2 walls / 2 windows", "off-grid values (0.629 enters in mirror form only)"],
    "harnesses": [
        {"name": "c09::n50_11", "bound": "1 wall + 1 window + optional construction; areas, C_h, V on {0..3}, C_o in {16,29}, test value on {0..3} or absent", "kani_args": NOOVF, "cbmc_args": FS2K, "stubs": FMT,
         "functions": ["N50Data::from(&EnergyProps)"]},
        {"name": "c09::n50_22", "tier": "thorough", "mem_gb": 40, "timeout_thorough": 2700, "bound": "2 walls + 2 windows, same grids", "kani_args": NOOVF, "cbmc_args": FS2K, "stubs": FMT,
         "functions": ["N50Data::from(&EnergyProps)"]},
    ],
}

UW10 = [[r"c10::(any_table|qsol_case|finite_detail|qsol_finite)", 10], [r"kani_models::HashMap.*::pos", 10]]

CHECKS["C10"] = {
    "title": "q_sol;jul follows the DB-HE solar-control formula",
    "outside": ["contents of the embedded July table (an arbitrary non-negative 9-entry table is the input)", "more than 2 windows"],
    "harnesses": [
        {"name": "c10::qsol_1", "unwindset": UW10, "bound": "1 window: any of the 9 orientation classes, area {0..3}, multiplier {1,2}, F in {0,1/2,1} (override/computed/absent), g in {k/4}, Ff in {0,1/4,1/2,3/4}, construction present/absent (0.77/0.20 defaults in mirror form), A_ref in {1,2,8}, table = 9 distinct constants", "kani_args": NOOVF, "cbmc_args": FS2K, "stubs": FMT,
         "functions": ["QSolJulData::from(&EnergyProps, &HashMap)"]},
        {"name": "c10::qsol_finite", "unwindset": UW10, "bound": "0 or 1 window, A_ref in {0,2,8}, same grids", "kani_args": NOOVF, "cbmc_args": FS2K, "stubs": FMT,
         "functions": ["QSolJulData::from(&EnergyProps, &HashMap)"]},
        {"name": "c10::qsol_2", "unwindset": UW10, "tier": "thorough", "mem_gb": 40, "timeout_thorough": 2700, "bound": "2 windows", "kani_args": NOOVF, "cbmc_args": FS2K, "stubs": FMT,
         "functions": ["QSolJulData::from(&EnergyProps, &HashMap)"]},
    ],
}

ROUND = ["f32::round -> exact rewrite via trunc (bit-identical; CBMC's roundf toggles the rounding mode)"]

CHECKS["C07"] = {
    "title": "window U-value and solar factors",
    "outside": ["the 0.77 / 5.7 / 0.20 defaults used downstream are decided under C08, C10 and C11"],
    "harnesses": [
        {"name": "c07::win_u_formula", "bound": "Ug,Uf in {k/4,k<=23}, g_n, Ff in {k/8,k<=8}, dU in {0,10,25,50}", "kani_args": NOOVF, "cbmc_args": FS2K, "stubs": FMT + ROUND,
         "functions": ["WinCons::u_value", "WinCons::g_glwi", "WinCons::g_glshwi", "fround2"]},
        {"name": "c07::win_lookup", "witness": True, "bound": "concrete numbers; glazing / frame present or absent (decoys first in the db), user shading factor present or absent", "kani_args": NOOVF, "cbmc_args": FS2K, "stubs": FMT + ROUND,
         "functions": ["WinCons::u_value", "WinCons::g_glwi", "WinCons::g_glshwi", "ConsDb::get_glass", "ConsDb::get_frame"]},
        {"name": "c07::win_u_bounds", "witness": True, "bound": "Ug,Uf in {k/2, k<=12}, Ff in {0,1/4,1/2,3/4,1}, dU in {0,25,50}", "kani_args": NOOVF, "cbmc_args": FS2K, "stubs": FMT + ROUND,
         "functions": ["WinCons::u_value", "fround2"]},
    ],
}

CHECKS["C15"] = {
    "title": "the model checker reports exactly the broken links",
    "assumptions": ["bridge length is not NaN and not -0.0 (the statement says 'negative length'; is_sign_negative() flags -0.0 - recorded as an observation, not a finding)"],
    "outside": ["warning texts", "'the warnings returned with the indicators are the checker's' (EnergyIndicators::compute reads the climate statics)", "more than 2 walls / 2 windows / 2 bridges"],
    "harnesses": [
        {"name": "c15::check_wall_space", "witness": True, "bound": "1 wall; space link in {valid a, valid b, nil, absent}, other links valid; boundary kind symbolic; warning read back", "kani_args": NOOVF, "cbmc_args": FS2K, "stubs": FMT, "functions": ["bemodel::check"]},
        {"name": "c15::check_wall_cons", "witness": True, "bound": "1 wall; construction link in {valid, nil, absent}, other links valid; warning read back", "kani_args": NOOVF, "cbmc_args": FS2K, "stubs": FMT, "functions": ["bemodel::check"]},
        {"name": "c15::check_wall_next", "witness": True, "bound": "1 wall; adjacent space in {none, valid a, valid b, nil, absent}, other links valid; warning read back", "kani_args": NOOVF, "cbmc_args": FS2K, "stubs": FMT, "functions": ["bemodel::check"]},
        {"name": "c15::check_wall_first", "tier": "thorough", "timeout_thorough": 2700, "mem_gb": 24, "bound": "1 wall, 1 space, 1 construction; space, construction and adjacent-space links in {valid, nil, absent}; exact count; id and level of the first warning read back", "kani_args": NOOVF, "cbmc_args": FS2K, "stubs": FMT, "functions": ["bemodel::check"]},
        {"name": "c15::check_win", "bound": "1 window; wall and construction links symbolic; ids read back", "kani_args": NOOVF, "cbmc_args": FS2K, "stubs": FMT, "functions": ["bemodel::check"]},
        {"name": "c15::check_tb", "bound": "2 bridges, any f32 length except NaN/-0.0; ids read back", "kani_args": NOOVF, "cbmc_args": FS2K, "stubs": FMT, "functions": ["bemodel::check"]},
        {"name": "c15::check_len_111", "bound": "1 wall + 1 window + 1 bridge, every link symbolic: exact number of warnings (ids not read back)", "kani_args": NOOVF, "cbmc_args": FS2K, "stubs": FMT, "functions": ["bemodel::check"]},
        {"name": "c15::check_len_222", "tier": "thorough", "bound": "2 walls + 2 windows + 2 bridges: exact number of warnings", "kani_args": NOOVF, "cbmc_args": FS2K, "stubs": FMT, "functions": ["bemodel::check"]},
    ],

}

UNREGISTERED = {}
UNREGISTERED["C16"] = {
    "title": "purging removes exactly the unreachable items",
    "outside": ["'leaves K, n50, q_sol;jul unchanged' (the indicators read only reachable items by construction of the retained set; not executed here)", "more than 2 items per collection, more than 1 wall"],
    "harnesses": [
        {"name": "c16::purge_spaces_tbs", "bound": "3 spaces, 1 wall (space in {1,2,3,absent}, next_to in {None,1,2,3}), 2 bridges with l in {-1,0,1}", "kani_args": NOOVF, "cbmc_args": FS2K, "stubs": FMT, "timeout_quick": 1200, "functions": ["bemodel::purge_unused"]},
        {"name": "c16::purge_wallcons", "bound": "1 wall (construction in {a,b,absent}), 2 wall constructions with one layer (material in {a,b,absent}), 2 materials", "kani_args": NOOVF, "cbmc_args": FS2K, "stubs": FMT, "timeout_quick": 1200, "functions": ["bemodel::purge_unused"]},
        {"name": "c16::purge_wincons", "bound": "0..1 window (construction in {a,b,absent}), 2 window constructions (glass, frame in {a,b,absent}), 2 glazings, 2 frames", "kani_args": NOOVF, "cbmc_args": FS2K, "stubs": FMT, "timeout_quick": 1200, "functions": ["bemodel::purge_unused"]},
        {"name": "c16::purge_loads", "bound": "2 spaces (second possibly unused), loads/thermostat links in {None,a,b,absent}, 2 loads, 2 thermostats", "kani_args": NOOVF, "cbmc_args": FS2K, "stubs": FMT, "timeout_quick": 1200, "functions": ["bemodel::purge_unused"]},
        {"name": "c16::purge_schedules", "bound": "1 space, 1 load (3 schedule links), 1 thermostat (2 links) in {None,a,b,absent}; 2 yearly -> 2 weekly -> 2 daily with links in {a,b,absent}", "kani_args": NOOVF, "cbmc_args": FS2K, "stubs": FMT, "timeout_quick": 1200, "functions": ["bemodel::purge_unused"]},
    ],
}

LN = ["f32::ln -> fixed deterministic bit-scrambling function of the argument (CBMC's logf is not functional; a memoised uninterpreted function was not digestible): ground formulas are decided modulo ln being SOME function"]
C06S = FMT + ROUND

CHECKS["C06"] = {
    "title": "opaque U-values follow EN ISO 6946, 13370 and 13789",
    "outside": ["thorough tier only: sum(Ae*Ue) bookkeeping (u_ua_sum, 17 min) and equivalent thickness / perimeter insulation (u_gnd_dt_psi, 17 min)",
                "numeric value of ln (uninterpreted)", "tolerance statements for arbitrary reals: the mirror oracle pins formula, constants, branch structure and operand order, not conditioning",
                "stacks deeper than 3 layers", "unconditioned spaces with more than 2 bounding exterior elements", "U of partitions between equally conditioned spaces with a neighbour (the statement does not define it): only 'has a value' is asserted"],
    "harnesses": [
        {"name": "c06::u_resistance", "bound": "0..3 layers, each detailed (lambda in {0.035,0.4,1.0,2.3} or <= 0), resistance-only (R in {k/4, k<=15}) or with a missing material; thickness in {k/16, k<=15}", "kani_args": NOOVF, "cbmc_args": FS2K, "stubs": FMT, "functions": ["WallCons::resistance", "ConsDb::get_material"]},
        {"name": "c06::u_exterior_kernel", "bound": "tilt in {0,60,90,120,180,300}, R in {k/8, k<=63} or None", "kani_args": NOOVF, "cbmc_args": FS2K, "stubs": C06S, "functions": ["Wall::u_value_exterior", "Tilt::from", "fround2"]},
        {"name": "c06::u_interior_kernel", "bound": "Ai in {(k+1)/2}, Rf in {k/4}, UA in {k/2}, q in {2k}, k<=15", "kani_args": NOOVF, "cbmc_args": FS2K, "stubs": C06S, "functions": ["Wall::u_value_interior_cond_uncond"]},
        {"name": "c06::u_gnd_slab_kernel", "bound": "z in {k/2,k<=7}, d_t in {(k+1)/4}, B' in {(k+1)/2}, k<=15, psi in {-k/8,k<=7}", "kani_args": NOOVF, "cbmc_args": FS2K, "stubs": C06S + LN, "functions": ["Wall::u_value_gnd_slab"]},
        {"name": "c06::u_gnd_wall_kernel", "bound": "z in {k/2,k<=7}, U_w, d_t in {(k+1)/4,k<=15}, h in {(k+1)/2,k<=7}", "kani_args": NOOVF, "cbmc_args": FS2K, "stubs": C06S + LN, "functions": ["Wall::u_value_gnd_wall"]},
        {"name": "c06::u_gnd_dt_psi", "tier": "thorough", "timeout_thorough": 2700, "bound": "1 ground slab of side 1..4 (+2 decoy floors), slab resistance in {k/4,k<=15}, construction present/absent, Rn in {k/2,k<=7}, D in {k/4,k<=7}, d_t in {(k+1)/4}", "kani_args": NOOVF, "cbmc_args": FS2K, "stubs": C06S + LN, "functions": ["Space::slab_d_t", "Space::slab_psi_gnd_ext"]},
        {"name": "c06::dispatch::u_dispatch_air", "bound": "concrete construction (R=1.75); symbolic: 4 boundary kinds x tilt {0,90,180} x construction/material present x lambda > 0", "kani_args": NOOVF, "cbmc_args": FS2K, "stubs": C06S, "functions": ["Wall::u_value", "WallCons::resistance", "Wall::u_value_exterior"]},
        {"name": "c06::dispatch::u_dispatch_partition", "timeout_quick": 1200, "bound": "concrete geometry; symbolic: 3x3 space kinds, tilt {0,90,180}, neighbour none/valid/dangling, per-space n_v present or not, building ventilation present or not", "kani_args": NOOVF, "cbmc_args": FS2K, "stubs": C06S, "timeout_quick": 1500,
         "functions": ["Wall::u_value", "Space::ua_of_external_and_ground_surfaces", "Model::global_ventilation_rate", "Space::area", "Space::height_net", "Wall::u_value_interior_cond_uncond"]},
        {"name": "c06::dispatch::u_ua_sum", "tier": "thorough", "timeout_thorough": 2700, "bound": "1 roof + 1 side element (4 boundary kinds, own/adjacent side, construction present or not) + 0..1 window (construction present or not)", "kani_args": NOOVF, "cbmc_args": FS2K, "stubs": C06S, "functions": ["Space::ua_of_external_and_ground_surfaces", "Wall::area_net", "WinCons::u_value"]},
        {"name": "c06::dispatch::u_ground_top", "bound": "buried roof, space z in {-3..1}", "kani_args": NOOVF, "cbmc_args": FS2K, "stubs": C06S + LN, "timeout_quick": 900,
         "functions": ["Wall::u_value", "Space::slab_d_t", "Space::slab_psi_gnd_ext", "Space::slab_char_dim", "Wall::u_value_gnd_slab", "Wall::u_value_gnd_wall"]},
        {"name": "c06::dispatch::u_ground_slab", "bound": "slab on ground, space z in {-3..1}", "kani_args": NOOVF, "cbmc_args": FS2K, "stubs": C06S + LN, "timeout_quick": 900,
         "functions": ["Wall::u_value", "Space::slab_d_t", "Space::slab_psi_gnd_ext", "Space::slab_char_dim", "Wall::u_value_gnd_slab", "Wall::u_value_gnd_wall"]},
        {"name": "c06::dispatch::u_ground_wall", "bound": "basement wall, space z in {-3..1}", "kani_args": NOOVF, "cbmc_args": FS2K, "stubs": C06S + LN, "timeout_quick": 900,
         "functions": ["Wall::u_value", "Space::slab_d_t", "Space::slab_psi_gnd_ext", "Space::slab_char_dim", "Wall::u_value_gnd_slab", "Wall::u_value_gnd_wall"]},
        {"name": "c06::dispatch::u_ground_missing", "bound": "ground element whose space is missing or has no ground slab", "kani_args": NOOVF, "cbmc_args": FS2K, "stubs": C06S + LN, "timeout_quick": 900,
         "functions": ["Wall::u_value", "Space::slab_d_t", "Space::slab_psi_gnd_ext", "Space::slab_char_dim", "Wall::u_value_gnd_slab", "Wall::u_value_gnd_wall"]},
        {"name": "c06::dispatch::u_char_dim", "bound": "floor 4x5, two side walls with 4 boundary kinds each, 3x3 space kinds, neighbour none/valid/dangling", "kani_args": NOOVF, "cbmc_args": FS2K, "stubs": C06S, "functions": ["Space::slab_char_dim"]},
        {"name": "c06::dispatch::u_monotone", "bound": "thickness k/8, R k/4, lambda in {0.4,1.0,2.3}, tilt {0,90,180}, exterior or partition without neighbour", "kani_args": NOOVF, "cbmc_args": FS2K, "stubs": C06S, "functions": ["Wall::u_value"]},
    ],
}

FSH = ["Model::compute_fshobst -> empty map (obstruction factors are inputs; ray casting is decided under C12/C13)"]

CHECKS["C11"]["harnesses"] += [
    {"name": "c11p::polygon_area_3", "bound": "3 integer vertices in [-4,4]^2 (any winding), scale factors {1/4,1/2,2,4}", "kani_args": NOOVF, "cbmc_args": FS2K,
     "functions": ["<Polygon as HasSurface>::area", "<Polygon as HasSurface>::perimeter"]},
    {"name": "c11p::polygon_area_4", "tier": "thorough", "bound": "4 integer vertices (any winding, self-intersections allowed), scale factor 2", "kani_args": NOOVF, "cbmc_args": FS2K,
     "functions": ["<Polygon as HasSurface>::area"]},
    {"name": "c11p::polygon_area_5", "tier": "thorough", "bound": "5 integer vertices", "kani_args": NOOVF, "cbmc_args": FS2K, "functions": ["<Polygon as HasSurface>::area"]},
    {"name": "c11p::space_area_height", "bound": "1 space, 2 floors (second own/foreign), ceiling own roof / given from the other side / none, 0..2 windows; sizes on integer grid", "kani_args": NOOVF, "cbmc_args": FS2K, "stubs": FMT + ROUND,
     "functions": ["Space::area", "Space::height_net", "Wall::area_net", "WallCons::thickness"]},
    {"name": "c11p::props_membership", "bound": "2 spaces (inside/outside each), 1 wall INTERIOR or ADIABATIC, neighbour none/valid/dangling (empty polygon)", "kani_args": NOOVF, "cbmc_args": FS2K, "stubs": FMT + ROUND + FSH, "timeout_quick": 1200,
     "functions": ["EnergyProps::from(&Model)"]},
    {"name": "c11p::props_global", "bound": "1 space (inside/outside, 3 kinds, multiplier {1,2}, height {2,3,4}) and its floor (4 boundary kinds, side 1..4), new/existing building", "kani_args": NOOVF, "cbmc_args": FS2K, "stubs": FMT + ROUND + FSH, "timeout_quick": 1200,
     "functions": ["EnergyProps::from(&Model)", "Space::area", "Space::height_net", "Wall::u_value", "Wall::area_net"]},
    {"name": "c11p::ventilation_consistency", "bound": "1 space (inside/outside, 3 kinds), floor side 1..4, building ventilation in {10..13} l/s", "kani_args": NOOVF, "cbmc_args": FS2K, "stubs": FMT + ROUND + FSH, "timeout_quick": 1200,
     "functions": ["EnergyProps::from(&Model)", "Model::global_ventilation_rate"]},
]
CHECKS["C11"]["outside"] = ["scale factors that are not powers of two", "models with more than 2 spaces / 2 walls", "off-grid geometry", "net volume with a ceiling element (net height is decided separately in space_area_height)"]

CHECKS["C17"]["harnesses"] += [
    {"name": "c17::sched::week_to_days", "tier": "off", "bound": "weekly schedules of two runs (3+4, 0+7), daily ids symbolic", "kani_args": NOOVF, "cbmc_args": FS2K, "functions": ["ScheduleWeek::to_day_sch"]},
    {"name": "c17::sched::end_dates_partition", "witness": True, "bound": "every increasing list of 3 end dates ending on 31 Dec", "functions": ["convert::from_ctehexml::day_of_year"]},
    {"name": "c17::sched::year_as_days", "tier": "off", "bound": "3 periods of (3,2,4) days over weekly schedules with runs (2+5) and (5+2): lengths concrete, the daily schedules the runs refer to symbolic", "kani_args": NOOVF, "cbmc_args": FS2K, "stubs": FMT, "timeout_quick": 900,
     "functions": ["SchedulesDb::get_year_as_day_sch", "ScheduleWeek::to_day_sch"]},
    {"name": "c17::sched::year_as_days_b", "tier": "off", "bound": "periods (8,0,2) with runs (1+6) and (1,3,5) with runs (3+4, 0+7) and a missing weekly schedule for the third period", "kani_args": NOOVF, "cbmc_args": FS2K, "stubs": FMT, "timeout_quick": 900,
     "functions": ["SchedulesDb::get_year_as_day_sch", "ScheduleWeek::to_day_sch"]},
]
CHECKS["C17"]["outside"] = ["schedules_from_bdl itself (string-keyed IdMaps): only its date arithmetic is decided", "schedule expansion (SchedulesDb::get_year_as_day_sch / ScheduleWeek::to_day_sch: flat_map over vec![id; n]): 560 s of symbolic execution and 2.5 M program steps for ONE weekly schedule with concrete run lengths, then out of memory; harnesses kept in harness/src/c17.rs but not registered in any tier", "yearly occupied time and mean internal load", "symbolic period and run lengths (vectors of symbolic length exhaust the solver): the lengths are the concrete ones listed per harness"]

CHECKS["C14"] = {
    "title": "indicator computation is total (partial)",
    "outside": ["schedules of inconsistent length / dangling schedule ids (props.rs sch_day[ds], s[day_idx], get(id).unwrap()): schedule expansion is not tractable (see C17); seen by reading, not decided",
                "empty collections and optional elements as a symbolic choice (symbolic vector lengths): element counts are concrete here",
                "lock poisoning / 'a failure never affects later computations' (no threads or unwinding under Kani)", "JSON serialise/parse of the result", "compute_fshobst (stubbed; its ray casting is decided under C12/C13; the empty obstacle set under C13 bvh_leaf0)", "finiteness of q_sol;jul without windows is decided under C10, of the ventilation rate under C11"],
    "harnesses": [
        {"name": "c14::props_total_dangling", "bound": "1 space (3 kinds, inside/outside), 1 triangular wall (space link valid/nil/absent, neighbour none/valid/absent, 4 boundary kinds, 3 tilts, construction absent), 1 window (wall valid/absent, sizes in {-1..2}, construction absent), 1 bridge (l, psi in {-1,0,1})",
         "kani_args": NOOVF, "cbmc_args": FS2K, "stubs": FMT + ROUND + FSH, "timeout_quick": 1200, "mem_gb": 40,
         "functions": ["EnergyProps::from(&Model)", "KData::from", "N50Data::from"]},
        {"name": "c14::finite_when_sane", "bound": "closed model: 1 space (3 kinds, multiplier {1,2}, height {2,3,4}), exterior floor side 1..4 and exterior wall with one window, resolvable constructions on dyadic grids, 1 bridge, building ventilation and blower-door value present or absent",
         "kani_args": NOOVF, "cbmc_args": FS2K, "stubs": FMT + ROUND + FSH, "timeout_quick": 1500, "mem_gb": 40,
         "functions": ["EnergyProps::from(&Model)", "KData::from", "N50Data::from", "Wall::u_value", "WinCons::u_value"]},
    ],
}

UNREGISTERED["C12"] = {
    "title": "obstruction factors: sunlit fraction of horizontal scenes (partial)",
    "outside": ["the obstruction factor itself (irradiance weighting over the 14 July design hours, >= 0.97 for unobstructed windows)", "every non-horizontal geometry (rotation matrices need sin/cos)", "sample grids of 25..100 origins (2 origins here)", "reveal shades generated from setback (ids are md5 of formatted text)"],
    "harnesses": [
        {"name": "c12::sunlit_fraction_missing", "bound": "wall present or not, position present or not, sun in front or behind, no obstacles, 1 ray origin", "kani_args": NOOVF, "cbmc_args": FS2K, "stubs": FMT, "timeout_quick": 5400,
         "functions": ["Model::sunlit_fraction", "BVH::build", "WallGeom::normal"]},
        {"name": "c12::sunlit_fraction_horizontal", "bound": "horizontal wall (tilt 0, azimuth 0) with one window, 2 horizontal obstacles 2x2 at integer positions in [-2,3]^2 x {1,2,3} (free / carrying the wall's id / linked to another window / linked to this window), 2 ray origins, sun direction in {-1,0,1}^3 minus 0",
         "kani_args": NOOVF, "cbmc_args": FS2K, "stubs": FMT, "timeout_quick": 5400, "mem_gb": 40, "functions": ["Model::sunlit_fraction", "BVH::build", "BVH::intersects", "<&Occluder as Intersectable>::intersects", "Ray::intersects_with_data", "WallGeom::normal"]},
    ],
}

CHECKS["C19"] = {
    "title": "damaged project files: typed-value kernels do not crash (partial)",
    "outside": ["everything between bytes and typed values: deleted/duplicated lines, truncation, numbers replaced by text, the XML layer, kyg/tbl readers (string parsing is not executable symbolically)", "hangs"],
    "harnesses": [
        {"name": "c19::edge_vertices_total", "witness": True, "bound": "vertex name 'V'+one digit, outline of 0..4 vertices", "kani_args": NOOVF, "cbmc_args": FS2K, "stubs": FMT, "functions": ["hulc::bdl::Polygon::edge_vertices"]},
        {"name": "c19::polygon_ops_total", "bound": "outline of 0..3 vertices on integer grid", "kani_args": NOOVF, "cbmc_args": FS2K, "functions": ["hulc::bdl::Polygon::area", "hulc::bdl::Polygon::mirror_y"]},
        {"name": "c19::dates_total", "witness": True, "bound": "any (day, month) in 0..=99", "functions": ["convert::from_ctehexml::day_of_year"]},
        {"name": "c19::tilt_any_total", "witness": True, "bound": "every f32 bit pattern", "kani_args": NOOVF, "functions": ["hulc::bdl::Wall::position", "bemodel::Tilt::from(f32)"]},
    ],
}

CHECKS["C04"] = {
    "title": "JSON format: omitted defaults load back as that default (partial)",
    "pre": "serde_scan",
    "outside": ["serialise -> parse text identity and idempotence (serde_json: std BTreeMap + float printing/parsing)", "untagged/flattened MatProps disambiguation", "the seven shipped model files", "renamed or re-typed fields"],
    "harnesses": [
        {"name": "c04::skip_multiplier", "witness": True, "bound": "every f32 bit pattern", "functions": ["utils::multiplier_is_1", "utils::default_1"]},
        {"name": "c04::skip_true", "witness": True, "bound": "both booleans", "functions": ["utils::is_true", "utils::default_true"]},
        {"name": "c04::skip_default_f32", "witness": True, "bound": "every f32 bit pattern", "functions": ["utils::is_default::<f32>"]},
        {"name": "c04::skip_default_enums", "witness": True, "bound": "all SpaceType and ThermalBridgeKind values", "functions": ["utils::is_default::<SpaceType>", "utils::is_default::<ThermalBridgeKind>"]},
        {"name": "c04::skip_empty_containers", "bound": "each part of ConsDb / SchedulesDb / PropsOverrides empty or holding one item", "cbmc_args": FS2K, "functions": ["ConsDb::is_empty", "SchedulesDb::is_empty", "PropsOverrides::is_empty"]},
    ],
}

CHECKS["C03"] = {
    "title": "conversion: azimuth convention and outline mirroring (partial)",
    "outside": ["every position (products of rotation matrices: sin/cos are not interpreted by CBMC)", "wall_geometry as a whole (string-keyed lookups)", "window placement, shades, invariance of areas/volumes/U/K/n50 under rotation"],
    "harnesses": [
        {"name": "c03::azimuth_convention", "witness": True, "bound": "every quarter-degree azimuth in [-720,1080]", "kani_args": NOOVF, "unwindset": [[r"c03::azimuth_convention", 7]], "functions": ["convert::orientation_bdl_to_52016", "convert::normalize_azimuth", "utils::normalize"]},
        {"name": "c03::azimuth_shift", "bound": "every pair (azimuth, delta) on the quarter-degree grid in [0,360)^2", "kani_args": NOOVF, "unwindset": [[r"c03::azimuth_shift", 5]], "functions": ["convert::orientation_bdl_to_52016"]},
        {"name": "c03::mirror_y_outline", "bound": "outline of 1..4 vertices on integer grid [-4,4]^2", "kani_args": NOOVF, "cbmc_args": FS2K, "functions": ["hulc::bdl::Polygon::mirror_y"]},
    ],
}
