"""Harness table: which Kani harnesses decide which property, with bounds and solver arguments.
tier 'quick' harnesses run in both tiers; tier 'thorough' only in the thorough tier."""

NOOVF = ["--no-overflow-checks"]  # CBMC's float NaN/overflow instrumentation off; Rust's integer-overflow asserts stay on
MEMCMP17 = ["--unwindset", "memcmp.0:17"]

CHECKS = {}

CHECKS["C11"] = {
    "title": "reference area, volumes, compactness, envelope membership, classifiers",
    "outside": [],
    "harnesses": [
        {"name": "c11::classify_tilt", "bound": "every f32 in [-720,1080]; guard band 1e-3 deg at sector boundaries",
         "functions": ["bemodel::Tilt::from(f32)", "bemodel::utils::normalize"]},
        {"name": "c11::classify_orientation", "bound": "every f32 in [-720,1080]; guard band 1e-3 deg at sector boundaries",
         "functions": ["bemodel::Orientation::from(f32)", "bemodel::utils::normalize"]},
        {"name": "c11::tilt_parser_vs_model", "bound": "every f32 in [0,360]",
         "functions": ["hulc::bdl::Wall::position", "bemodel::Tilt::from(f32)"]},
        {"name": "c11::wall_orientation", "bound": "every pair of f32 in [-720,1080]^2",
         "functions": ["bemodel::Orientation::from(&Wall)", "bemodel::Tilt::from(&Wall)"]},
    ],
}

CHECKS["C17"] = {
    "title": "schedules",
    "harnesses": [
        {"name": "c17::doy_calendar", "bound": "all 365 (day, month) pairs of a non-leap year",
         "functions": ["bemodel::convert::from_ctehexml::day_of_year"]},
    ],
}

CHECKS["C20"] = {
    "title": "solar geometry, radiation identities, tables (trig-free clauses)",
    "harnesses": [
        {"name": "c20::nday_calendar", "bound": "all 365 (month, day) pairs of a non-leap year",
         "functions": ["climate::solar::nday_from_md"]},
    ],
}
