"""Harness table: which Kani harnesses decide which property, with bounds and solver arguments.
tier 'quick' harnesses run in both tiers; tier 'thorough' only in the thorough tier."""

NOOVF = ["--no-overflow-checks"]  # CBMC's float NaN/overflow instrumentation off; Rust's integer-overflow asserts stay on
MEMCMP17 = ["--unwindset", "memcmp.0:17"]

CHECKS = {}

CHECKS["C11"] = {
    "title": "reference area, volumes, compactness, envelope membership, classifiers",
    "outside": [],
    "harnesses": [
        {"name": "c11::classify_tilt", "bound": "every f32 in [-720,1080]; guard band 1e-3 deg at sector boundaries",
         "functions": ["bemodel::Tilt::from(f32)", "bemodel::utils::normalize"]},
        {"name": "c11::classify_orientation", "bound": "every f32 in [-720,1080]; guard band 1e-3 deg at sector boundaries",
         "functions": ["bemodel::Orientation::from(f32)", "bemodel::utils::normalize"]},
        {"name": "c11::tilt_parser_vs_model", "bound": "every f32 in [0,360]",
         "functions": ["hulc::bdl::Wall::position", "bemodel::Tilt::from(f32)"]},
        {"name": "c11::wall_orientation", "bound": "every pair of f32 in [-720,1080]^2",
         "functions": ["bemodel::Orientation::from(&Wall)", "bemodel::Tilt::from(&Wall)"]},
    ],
}

CHECKS["C17"] = {
    "title": "schedules",
    "harnesses": [
        {"name": "c17::doy_calendar", "bound": "all 365 (day, month) pairs of a non-leap year",
         "functions": ["bemodel::convert::from_ctehexml::day_of_year"]},
    ],
}

CHECKS["C20"] = {
    "title": "solar geometry, radiation identities, tables (trig-free clauses)",
    "harnesses": [
        {"name": "c20::nday_calendar", "bound": "all 365 (month, day) pairs of a non-leap year",
         "functions": ["climate::solar::nday_from_md"]},
    ],
}

FS = ["--max-field-sensitivity-array-size", "256"]  # heap objects up to 256 bytes stay field-sensitive (constant propagation through Vec/Box)

CHECKS["C13"] = {
    "title": "ray casting: accelerated = exhaustive; exact geometry",
    "outside": [
        "BVH::build when the element count exceeds max_num_elements (the split path: generate_node_list / partition_elements_by_centroid / multi-level build_from_node_list): symbolic execution of 2 elements with max=1 did not finish in 500 s even with concrete boxes; termination for coinciding centres is therefore NOT decided",
        "polygons with more than 3 corners through point_in_poly; poses with non-zero tilt/azimuth (sin/cos are not interpreted by CBMC)",
        "off-grid coordinates; rays whose origin lies exactly on a slab face with a zero direction component (0*inf = NaN)",
    ],
    "harnesses": [
        {"name": "c13::bvh_leaf0", "bound": "empty obstacle set, ray origin on integer grid [-6,6]^3, direction components in {-1,-1/2,0,1/2,1}", "kani_args": NOOVF, "cbmc_args": FS,
         "functions": ["BVH::build", "BVH::generate_node_list", "BVH::build_from_node_list", "BVH::intersects", "PreorderIter::next"]},
        {"name": "c13::bvh_leaf1", "bound": "1 box with integer corners (min in [-4,4]^3, size 1..2), ray as above; max_num_elements=30 (single leaf)", "kani_args": NOOVF, "cbmc_args": FS,
         "timeout_quick": 900, "functions": ["BVH::build", "BVH::intersects", "AABB::intersects", "<[T] as Bounded>::aabb", "PreorderIter::next"]},
        {"name": "c13::bvh_leaf2", "tier": "thorough", "bound": "2 boxes, same grids, single leaf", "kani_args": NOOVF, "cbmc_args": FS,
         "functions": ["BVH::build", "BVH::intersects", "AABB::intersects", "AABB::join", "PreorderIter::next"]},
        {"name": "c13::geo::aabb_slab", "bound": "box corners integers in [-4,7], origin integers in [-6,6]^3, doubled direction in {-2..2}^3 minus 0", "kani_args": NOOVF,
         "functions": ["AABB::intersects"]},
        {"name": "c13::geo::aabb_join_monotone", "bound": "2 grid boxes, grid ray", "kani_args": NOOVF, "cbmc_args": FS,
         "functions": ["AABB::intersects", "AABB::join", "<[T] as Bounded>::aabb"]},
        {"name": "c13::geo::aabb_join_bounds", "bound": "0..3 boxes, every finite f32 corner", "kani_args": NOOVF, "cbmc_args": FS,
         "functions": ["AABB::join", "<[T] as Bounded>::aabb"]},
        {"name": "c13::geo::pip_exact_tri", "bound": "triangles (both windings) with integer vertices in [-4,4]^2, points at half-integers", "kani_args": NOOVF, "cbmc_args": FS,
         "timeout_quick": 900, "functions": ["ray::point_in_poly", "Ray::intersects_with_data"]},
        {"name": "c13::geo::ray_plane", "bound": "rectangle w,h in 1..4, translation in [-3,3]^3, both vertex orders, origin in [-6,6]^3, direction in {-2..2}^2 x {-2,-1,0,1,2}", "kani_args": NOOVF, "cbmc_args": FS,
         "timeout_quick": 900, "functions": ["Ray::intersects_with_data", "ray::point_in_poly", "Polygon::normal"]},
    ],
}

FMT = ["alloc::fmt::format -> empty String (message texts are outside the claim)"]
GRIDK = "U and areas on the integer grid {0..3}, multipliers {1,2}, bridge length and psi in {-1..2}; reference in i32"

CHECKS["C08"] = {
    "title": "K is the area-weighted mean transmittance of the thermal envelope",
    "outside": ["more than 2 walls / 2 windows / 2 bridges", "off-grid values except in k_default_u (mirror form)", "net areas themselves (Wall::area_net is decided under C11)"],
    "harnesses": [
        {"name": "c08::k_formula_111", "bound": "1 wall + 1 window + 1 bridge; " + GRIDK, "kani_args": NOOVF, "cbmc_args": FS, "stubs": FMT,
         "functions": ["KData::from(&EnergyProps)"]},
        {"name": "c08::k_default_u", "bound": "1 wall + 1 window, areas in {0..7}, U in {k/4, k<=15}, multiplier {1,2}, presence of computed/override symbolic (mirror form: 5.7 is not dyadic)", "kani_args": NOOVF, "cbmc_args": FS, "stubs": FMT,
         "functions": ["KData::from(&EnergyProps)"]},
        {"name": "c08::k_formula_211", "tier": "thorough", "bound": "2 walls + 1 window + 1 bridge; " + GRIDK, "kani_args": NOOVF, "cbmc_args": FS, "stubs": FMT,
         "functions": ["KData::from(&EnergyProps)"]},
        {"name": "c08::k_permutation", "tier": "thorough", "bound": "2 walls + 1 window under two id assignments; " + GRIDK, "kani_args": NOOVF, "cbmc_args": FS, "stubs": FMT,
         "functions": ["KData::from(&EnergyProps)"]},
        {"name": "c08::k_formula_222", "tier": "thorough", "bound": "2 walls + 2 windows + 2 bridges; " + GRIDK, "kani_args": NOOVF, "cbmc_args": FS, "stubs": FMT,
         "functions": ["KData::from(&EnergyProps)"]},
    ],
}

CHECKS["C09"] = {
    "title": "n50 follows the DB-HE air-permeability formula",
    "outside": ["more than 2 walls / 2 windows", "off-grid values (0.629 enters in mirror form only)"],
    "harnesses": [
        {"name": "c09::n50_11", "bound": "1 wall + 1 window + optional construction; areas, C_h, V on {0..3}, C_o in {16,29}, test value on {0..3} or absent", "kani_args": NOOVF, "cbmc_args": FS, "stubs": FMT,
         "functions": ["N50Data::from(&EnergyProps)"]},
        {"name": "c09::n50_22", "tier": "thorough", "bound": "2 walls + 2 windows, same grids", "kani_args": NOOVF, "cbmc_args": FS, "stubs": FMT,
         "functions": ["N50Data::from(&EnergyProps)"]},
    ],
}

UW10 = [[r"c10::(any_table|qsol_case|finite_detail|qsol_finite)", 10], [r"kani_models::HashMap.*::pos", 10]]

CHECKS["C10"] = {
    "title": "q_sol;jul follows the DB-HE solar-control formula",
    "outside": ["contents of the embedded July table (an arbitrary non-negative 9-entry table is the input)", "more than 2 windows"],
    "harnesses": [
        {"name": "c10::qsol_1", "unwindset": UW10, "bound": "1 window: any of the 9 orientation classes, area {0..3}, multiplier {1,2}, F in {0,1/2,1} (override/computed/absent), g in {k/4}, Ff in {0,1/4,1/2,3/4}, construction present/absent (0.77/0.20 defaults in mirror form), A_ref in {1,2,8}, table = 9 distinct constants", "kani_args": NOOVF, "cbmc_args": FS, "stubs": FMT,
         "functions": ["QSolJulData::from(&EnergyProps, &HashMap)"]},
        {"name": "c10::qsol_finite", "unwindset": UW10, "bound": "0 or 1 window, A_ref in {0,2,8}, same grids", "kani_args": NOOVF, "cbmc_args": FS, "stubs": FMT,
         "functions": ["QSolJulData::from(&EnergyProps, &HashMap)"]},
        {"name": "c10::qsol_2", "unwindset": UW10, "tier": "thorough", "bound": "2 windows", "kani_args": NOOVF, "cbmc_args": FS, "stubs": FMT,
         "functions": ["QSolJulData::from(&EnergyProps, &HashMap)"]},
    ],
}

ROUND = ["f32::round -> exact rewrite via trunc (bit-identical; CBMC's roundf toggles the rounding mode)"]

CHECKS["C07"] = {
    "title": "window U-value and solar factors",
    "outside": ["the 0.77 / 5.7 / 0.20 defaults used downstream are decided under C08, C10 and C11"],
    "harnesses": [
        {"name": "c07::win_u_mirror", "bound": "every finite f32: Ug,Uf in [0,20], g_n in [0,1], Ff in [0,1], dU in [0,50], user shading factor in [0,1] or absent; glazing/frame present or absent (decoys first in the db)",
         "kani_args": NOOVF, "cbmc_args": FS, "stubs": FMT + ROUND, "functions": ["WinCons::u_value", "WinCons::g_glwi", "WinCons::g_glshwi", "ConsDb::get_glass", "ConsDb::get_frame", "fround2"]},
        {"name": "c07::win_u_bounds", "bound": "Ug,Uf in {k/2, k<=12}, Ff in {0,1/4,1/2,3/4,1}, dU in {0,25,50}", "kani_args": NOOVF, "cbmc_args": FS, "stubs": FMT + ROUND,
         "functions": ["WinCons::u_value", "fround2"]},
    ],
}

CHECKS["C15"] = {
    "title": "the model checker reports exactly the broken links",
    "assumptions": ["bridge length is not NaN and not -0.0 (the statement says 'negative length'; is_sign_negative() flags -0.0 - recorded as an observation, not a finding)"],
    "outside": ["warning texts", "'the warnings returned with the indicators are the checker's' (EnergyIndicators::compute reads the climate statics)", "more than 2 walls / 2 windows / 2 bridges"],
    "harnesses": [
        {"name": "c15::check_wall_first", "timeout_quick": 1500, "bound": "1 wall, 2 spaces, 2 constructions; space, construction and adjacent-space links in {valid a, valid b, nil, absent}; exact count; id and level of the first warning read back", "kani_args": NOOVF, "cbmc_args": FS, "stubs": FMT, "functions": ["bemodel::check"]},
        {"name": "c15::check_win", "bound": "1 window; wall and construction links symbolic; ids read back", "kani_args": NOOVF, "cbmc_args": FS, "stubs": FMT, "functions": ["bemodel::check"]},
        {"name": "c15::check_tb", "bound": "2 bridges, any f32 length except NaN/-0.0; ids read back", "kani_args": NOOVF, "cbmc_args": FS, "stubs": FMT, "functions": ["bemodel::check"]},
        {"name": "c15::check_len_111", "bound": "1 wall + 1 window + 1 bridge, every link symbolic: exact number of warnings (ids not read back)", "kani_args": NOOVF, "cbmc_args": FS, "stubs": FMT, "functions": ["bemodel::check"]},
        {"name": "c15::check_len_222", "tier": "thorough", "bound": "2 walls + 2 windows + 2 bridges: exact number of warnings", "kani_args": NOOVF, "cbmc_args": FS, "stubs": FMT, "functions": ["bemodel::check"]},
    ],

}

CHECKS["C16"] = {
    "title": "purging removes exactly the unreachable items",
    "outside": ["'leaves K, n50, q_sol;jul unchanged' (the indicators read only reachable items by construction of the retained set; not executed here)", "more than 2 items per collection, more than 1 wall"],
    "harnesses": [
        {"name": "c16::purge_envelope", "bound": "3 spaces, 1 wall (space/next_to symbolic), 0..1 window, 2 wall constructions (1 layer), 2 materials, 2 window constructions, 2 glasses, 2 frames, 2 bridges with l in {-1,0,1}; links in {a,b,absent}",
         "kani_args": NOOVF, "cbmc_args": FS, "stubs": FMT, "timeout_quick": 900, "functions": ["bemodel::purge_unused", "bemodel::check"]},
        {"name": "c16::purge_usage", "bound": "2 spaces (one possibly unused), 2 loads, 2 thermostats, 2 yearly, 2 weekly, 2 daily schedules; links in {None,a,b,absent}",
         "kani_args": NOOVF, "cbmc_args": FS, "stubs": FMT, "timeout_quick": 900, "functions": ["bemodel::purge_unused"]},
    ],
}
