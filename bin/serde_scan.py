#!/usr/bin/env python3
"""C04 obligation generator: scan the #[serde(...)] attributes of bemodel/src/types/*.rs (and energy result
types are not scanned: they are outputs).  For every field with skip_serializing_if = P report (file, struct,
field, P, D) where D is what serde supplies on load (named default fn, `default`, or container-level default).
A field with a skip predicate and NO default of any kind is an unmet obligation (it cannot load back).
Also checks that every (P, D) pair is one the Kani harnesses of c04.rs decide or a std pair."""
import glob, json, os, re, sys

KNOWN = {
    ("String::is_empty", "Default"), ("Vec::is_empty", "Default"), ("Option::is_none", "Default"),
    ("is_default", "Default"), ("multiplier_is_1", "default_1"), ("is_true", "default_true"),
    ("ConsDb::is_empty", "Default"), ("BTreeMap::is_empty", "Default"), ("SchedulesDb::is_empty", "Default"), ("PropsOverrides::is_empty", "Default"),
}

def scan(root="/repo/bemodel/src/types"):
    out, bad = [], []
    for f in sorted(glob.glob(os.path.join(root, "**", "*.rs"), recursive=True)):
        src = open(f).read()
        lines = src.split("\n")
        struct = None
        container_default = False
        pending = []   # serde attribute texts collected since the last item
        for i, ln in enumerate(lines):
            t = ln.strip()
            m = re.match(r"#\[serde\((.*)\)\]", t)
            if m:
                pending.append(m.group(1))
                continue
            sm = re.match(r"pub (struct|enum) (\w+)", t)
            if sm:
                struct = sm.group(2)
                container_default = any(re.fullmatch(r"default", a.strip()) or re.search(r"(^|,\s*)default(\s*,|$)", a) for a in pending) and sm.group(1) == "struct"
                pending = []
                continue
            fm = re.match(r"(pub )?(\w+): (.+?),?$", t)
            if fm and struct and pending:
                attrs = ", ".join(pending)
                pending = []
                sk = re.search(r'skip_serializing_if\s*=\s*"([^"]+)"', attrs)
                if not sk:
                    continue
                dn = re.search(r'default\s*=\s*"([^"]+)"', attrs)
                has_plain = re.search(r"(^|,\s*)default(\s*,|$)", attrs) is not None
                d = dn.group(1) if dn else ("Default" if (has_plain or container_default) else None)
                rec = {"file": os.path.relpath(f, "/repo"), "struct": struct, "field": fm.group(2), "type": fm.group(3), "skip_if": sk.group(1), "default": d}
                out.append(rec)
                if d is None:
                    rec["problem"] = "skip predicate without any default: an omitted value cannot load back"
                    bad.append(rec)
                elif (sk.group(1), d) not in KNOWN:
                    rec["problem"] = "pair (skip predicate, default) not covered by a harness"
                    bad.append(rec)
            elif t and not t.startswith("///") and not t.startswith("//") and not t.startswith("#["):
                pending = []
    return out, bad

if __name__ == "__main__":
    o, b = scan()
    json.dump({"fields": o, "unmet": b}, sys.stdout, indent=1)
    sys.exit(1 if b else 0)
