"""bin/check --selftest: validates trusted pieces of the encoding natively.
1. round_stub (the exact rewrite of f32::round used under Kani) against f32::round over all 2^32 bit patterns;
2. the serde obligation scan runs and finds no unmet obligation on the current tree."""
import subprocess, sys, os
ROOT = os.path.dirname(os.path.dirname(os.path.abspath(__file__)))

def main():
    sys.path.insert(0, os.path.join(ROOT, "bin"))
    import importlib
    chk = importlib.import_module("check") if False else None
    env = dict(os.environ); env["CARGO_NET_OFFLINE"] = "true"; env["RUSTFLAGS"] = "--cfg verif_hooks"
    p = subprocess.run(["cargo", "build", "--release", "--bin", "replay", "--target-dir", os.path.join(ROOT, ".build", "native")],
                       cwd=os.path.join(ROOT, "harness"), env=env, stdout=subprocess.PIPE, stderr=subprocess.STDOUT, text=True)
    if p.returncode != 0:
        print(p.stdout[-2000:]); return 2
    r = subprocess.run([os.path.join(ROOT, ".build", "native", "release", "replay"), "--selftest"], stdout=subprocess.PIPE, text=True)
    print(r.stdout.strip())
    import serde_scan
    fields, unmet = serde_scan.scan()
    print("SELFTEST serde scan: %d fields with a skip predicate, %d unmet obligations" % (len(fields), len(unmet)))
    return 0 if (r.returncode == 0 and not unmet) else 1
